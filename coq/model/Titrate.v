(* Hand-written executable model of the --titrate_only path:
     propka/lib.py: parse_res_string, parse_res_list
     propka/conformation_container.py: ConformationContainer.init_group (the part after group.setup())
     propka/group.py: Group.use_in_calculations
   Strings are 8-bit.  Tie: tools/props/c14.py compares parse_res_string/parse_res_list with the real functions on generated
   strings and the flags predicted by init_group with those of real runs with the option. *)
From Coq Require Import String Ascii List Bool ZArith.
From V Require Import PyString.
Import ListNotations.
Open Scope string_scope.

(* s.split(sep) for a one-character separator *)
Fixpoint split (sep : ascii) (s : string) : list string :=
  match s with
  | EmptyString => [EmptyString]
  | String c r => if Ascii.eqb c sep then EmptyString :: split sep r
                  else match split sep r with h :: t => String c h :: t | [] => [String c EmptyString] end
  end.
Fixpoint join (sep : ascii) (l : list string) : string :=
  match l with [] => EmptyString | [x] => x | x :: r => x ++ String sep (join sep r) end.

(* s[:-1], s[-1] *)
Fixpoint but_last (s : string) : string :=
  match s with EmptyString => EmptyString | String c EmptyString => EmptyString | String c r => String c (but_last r) end.
Fixpoint last_char (s : string) : option ascii :=
  match s with EmptyString => None | String c EmptyString => Some c | String _ r => last_char r end.

Definition reskey := (string * Z * string)%type.
Definition parse_res_string (s : string) : result reskey :=
  match split ":" s with
  | [chain; num] =>
    match py_int num with
    | Ok n => Ok (chain, n, " ")
    | Err _ => match py_int (but_last num), last_char num with
               | Ok n, Some c => Ok (chain, n, String c EmptyString)
               | _, _ => Err ValueError end
    end
  | _ => Err ValueError
  end.
Fixpoint parse_all (l : list string) : result (list reskey) :=
  match l with
  | [] => Ok []
  | x :: r => match parse_res_string x with Ok k => match parse_all r with Ok ks => Ok (k :: ks) | Err e => Err e end | Err e => Err e end
  end.
Definition parse_res_list (s : string) : result (list reskey) := parse_all (split "," s).

Definition key_eqb (a b : reskey) : bool :=
  let '(c1, n1, i1) := a in let '(c2, n2, i2) := b in String.eqb c1 c2 && Z.eqb n1 n2 && String.eqb i1 i2.
Fixpoint key_mem (k : reskey) (l : list reskey) : bool :=
  match l with [] => false | x :: r => key_eqb k x || key_mem k r end.

(* a group as far as the option is concerned; `env` stands for everything else the group carries (type, atoms, coordinates, ...) *)
Record grp (E : Type) := mk_grp { g_key : reskey; g_titratable : bool; g_is_cys : bool; g_excl : bool; g_env : E }.
Arguments mk_grp {E}. Arguments g_key {E}. Arguments g_titratable {E}. Arguments g_is_cys {E}. Arguments g_excl {E}. Arguments g_env {E}.

Definition init_group {E} (titrate_only : option (list reskey)) (g : grp E) : grp E :=
  match titrate_only with
  | None => g
  | Some l => if negb (key_mem (g_key g) l)
              then mk_grp (g_key g) false (g_is_cys g) (if g_is_cys g then true else g_excl g) (g_env g)
              else g
  end.
Definition use_in_calculations {E} (g : grp E) : bool := g_titratable g || (g_is_cys g && negb (g_excl g)).

(* output helpers for the correspondence *)
Definition key_out (k : reskey) : list (list Z) := let '(c, n, i) := k in [codes c; [n]; codes i].
Definition res_out (r : result (list reskey)) : list (list Z) :=
  match r with Ok l => [1%Z] :: flat_map key_out l | Err _ => [[0%Z]] end.

(* ------------------------------------------------------------------------------------------------------------------------
   The life of the titration flags of one group, as far as a disulfide bridge is concerned (C11):
     Group.__init__            titratable := False
     Group.setup               titratable := model_pka_set and not atom.cysteine_bridge ; exclude_cys_from_results := False
     ConformationContainer.init_group (after setup)      the --titrate_only restriction above
     Group.clone               copies the flags
     BondMaker._find_bonds_for_atoms                      atom.cysteine_bridge := True   (never reset)
   The inventory gen/Inventory_gen.v (flag_writes) lists EVERY assignment to these attributes in the source; proofs/TitrateProofs.v
   shows that each is one of the operations below. *)
Inductive flag_op := OpSetup (model_pka_set : bool) | OpRestrict (l : option (list reskey)) | OpClone | OpBridge.
Definition flag_state (E : Type) := (bool * grp E)%type.      (* atom.cysteine_bridge, the group's flags *)
Definition flag_step {E} (st : flag_state E) (o : flag_op) : flag_state E :=
  let '(bridge, g) := st in
  match o with
  | OpSetup mps => (bridge, mk_grp (g_key g) (mps && negb bridge) (g_is_cys g) false (g_env g))
  | OpRestrict l => (bridge, init_group l g)
  | OpClone => (bridge, mk_grp (g_key g) (g_titratable g) (g_is_cys g) (g_excl g) (g_env g))
  | OpBridge => (true, g)
  end.
Definition flag_run {E} (st : flag_state E) (ops : list flag_op) : flag_state E := fold_left flag_step ops st.
(* Group.__init__ *)
Definition flag_init {E} (k : reskey) (is_cys bridge : bool) (env : E) : flag_state E := (bridge, mk_grp k false is_cys false env).

(* classification of the source's assignments (rows of Inventory_gen.flag_writes) *)
Definition write_row := (string * string * string * string * string * string)%type.
Definition row_ok (r : write_row) : bool :=
  let '(file, fn, attr, target, value, guard) := r in
  if String.eqb attr "titratable" then
    String.eqb value "False"                                                                             (* Group.__init__, Group.setup, init_group *)
    || (String.eqb fn "Group.setup" && String.eqb value "True" && String.eqb guard "self.model_pka_set and (not self.atom.cysteine_bridge)")
    || (String.eqb fn "Group.clone" && String.eqb target "res" && String.eqb value "self.titratable")
  else if String.eqb attr "cysteine_bridge" then
    String.eqb value "True"                                                                              (* set, never reset *)
  else if String.eqb attr "exclude_cys_from_results" then
    String.eqb value "False" || (String.eqb fn "Group.clone" && String.eqb value "self.exclude_cys_from_results")
    || (String.eqb fn "ConformationContainer.init_group" && String.eqb value "True")
  else if String.eqb attr "setattr" then String.eqb file "parameters.py"                                 (* parameter objects only *)
  else false.
(* the writes the model's operations stand for must all be present *)
Definition has_row (rows : list write_row) (fn attr value : string) : bool :=
  existsb (fun r => let '(_, f, a, _, v, _) := r in String.eqb f fn && String.eqb a attr && String.eqb v value) rows.
