(* C06 model: how residue identity enters the computations.  A residue is identified in the file by (chain, number, insertion code); the code
   compares derived keys.  Which attributes each comparison reads is re-extracted from the source on every run (gen/Inventory_gen.v):
     energy.radial_volume_desolvation    atom.res_num == group.atom.res_num and atom.chain_id == group.atom.chain_id
     group.Group.__init__ / __eq__       label = (residue_type, res_num, chain_id) formatted; protein groups are equal iff labels are equal
   Tie: tools/props/c06.py checks the inventory rows the model relies on and compares label (in)equality of real groups with label_key. *)
From Coq Require Import String List Bool ZArith.
Import ListNotations.
Open Scope string_scope.

Record resid := { r_chain : string; r_num : Z; r_icode : string }.
Definition resid_eqb (a b : resid) : bool := String.eqb (r_chain a) (r_chain b) && Z.eqb (r_num a) (r_num b) && String.eqb (r_icode a) (r_icode b).
(* the key the code compares: chain and number (no insertion code) *)
Definition code_key (a : resid) : string * Z := (r_chain a, r_num a).
Definition key_eqb (x y : string * Z) : bool := String.eqb (fst x) (fst y) && Z.eqb (snd x) (snd y).
Definition same_residue (a b : resid) : bool := key_eqb (code_key a) (code_key b).        (* desolvation: "ignore atoms in the same residue" *)
Definition label_key (residue_type : string) (a : resid) : string * (string * Z) := (residue_type, code_key a).
Definition label_eqb (x y : string * (string * Z)) : bool := String.eqb (fst x) (fst y) && key_eqb (snd x) (snd y).
Definition group_eq (t1 : string) (a : resid) (t2 : string) (b : resid) : bool := label_eqb (label_key t1 a) (label_key t2 b).   (* Group.__eq__, protein atoms *)

(* inventory helpers *)
Fixpoint reads (inv : list (string * string * string)) (file fn attr : string) : bool :=
  match inv with
  | [] => false
  | (f, g, a) :: r => (String.eqb f file && String.eqb g fn && String.eqb a attr) || reads r file fn attr
  end.
