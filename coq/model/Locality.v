(* Hand-written executable models for C05 (on top of the GENERATED squared_distance / desolvation slices):
     propka/calculations.py: get_smallest_distance   (running minimum of squared distances, started from MAX_DISTANCE)
     propka/energy.py: the accumulation loop of radial_volume_desolvation  (volume sum and buried count, guarded by the two cut-offs)
     propka/iterative.py: the stopping rule of add_determinants  (sweep until every object is converged or the sweep limit is reached)
   Tie: tools/props/c05.py evaluates `smallest` and `desolv_loop` with the binary64 instance and compares with the real functions. *)
From Coq Require Import List Bool ZArith.
From V Require Import Num VecGen EnergyGen.
Import ListNotations.

Section Loc.
Context {F : Type} {N : Num F}.

(* res_dist: None stands for float('inf') *)
Definition lt_opt (d : F) (r : option F) : bool := match r with None => true | Some x => nltb d x end.
Definition small_state := (option F * option (nat * nat))%type.
Definition small_step (i : nat) (a1 : VecGen.vec3 F) (s : small_state) (ja2 : nat * VecGen.vec3 F) : small_state :=
  let d := squared_distance a1 (snd ja2) in if lt_opt d (fst s) then (Some d, Some (i, fst ja2)) else s.
Fixpoint number {A} (k : nat) (l : list A) : list (nat * A) := match l with [] => [] | x :: r => (k, x) :: number (S k) r end.
Definition smallest_from (init : option F) (l1 l2 : list (VecGen.vec3 F)) : small_state :=
  fold_left (fun s ia1 => fold_left (small_step (fst ia1) (snd ia1)) (number 0 l2) s) (number 0 l1) (init, None).
(* the returned distance: sqrt of the running minimum (sqrt(inf) = inf is rendered as None) *)
Definition smallest (init : option F) (l1 l2 : list (VecGen.vec3 F)) : option F * option (nat * nat) :=
  let s := smallest_from init l1 l2 in (match fst s with Some d => Some (nsqrt d) | None => None end, snd s).

(* radial_volume_desolvation: per heavy atom (already filtered for "not the same residue"): position and dvol *)
Definition desolv_step (g : VecGen.vec3 F) (desolv_sq buried_sq min4 : F) (acc : F * nat) (a : VecGen.vec3 F * F) : F * nat :=
  let sq := squared_distance g (fst a) in
  (if nltb sq desolv_sq then nadd (fst acc) (desolv_volume_increment (snd a) min4 sq) else fst acc,
   if nltb sq buried_sq then S (snd acc) else snd acc).
Definition desolv_loop (g : VecGen.vec3 F) (desolv_sq buried_sq min4 : F) (atoms : list (VecGen.vec3 F * F)) : F * nat :=
  fold_left (desolv_step g desolv_sq buried_sq min4) atoms (nlit 0 1, O).
End Loc.

(* the stopping rule, for an arbitrary sweep function and convergence test *)
Section Stop.
Context {S : Type} (sweep : S -> S) (conv : S -> bool).
Fixpoint run_sweeps (limit : nat) (s : S) : S :=
  match limit with
  | O => s
  | Datatypes.S k => let s' := sweep s in if conv s' || Nat.eqb k 0 then s' else run_sweeps k s'
  end.
End Stop.
