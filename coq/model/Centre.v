(* Hand-written model of propka/group.py: Group.set_center - the group centre is the arithmetic mean of the coordinates of the given atoms,
   accumulated from 0.0 in list order and divided by float(len(atoms)); an empty list raises ValueError (None).
   Written over Num F: the real instance carries the theorem (C04: the centre moves with the structure), the binary64 instance is compared bit
   for bit with the real method on atom lists of real groups (tools/props/c04.py). *)
From Coq Require Import List ZArith.
From V Require Import Num VecGen.
Import ListNotations.

Section Centre.
Context {F : Type} {N : Num F}.
Definition acc_add (a p : vec3 F) : vec3 F :=
  mk_vec3 (nadd (vec3_x a) (vec3_x p)) (nadd (vec3_y a) (vec3_y p)) (nadd (vec3_z a) (vec3_z p)).
Definition set_center (pts : list (vec3 F)) : option (vec3 F) :=
  match pts with
  | [] => None
  | _ => let s := fold_left acc_add pts (mk_vec3 (nlit 0 1) (nlit 0 1) (nlit 0 1)) in
         let n := nlit (Z.of_nat (length pts)) 1 in
         Some (mk_vec3 (ndiv (vec3_x s) n) (ndiv (vec3_y s) n) (ndiv (vec3_z s) n))
  end.
End Centre.
