(* Queries used by the C18 correspondence: the harness states what the implementation answered, the model
   (Params.v) is evaluated on the same file and must answer the same. *)
From Coq Require Import String List Bool ZArith QArith.
From V Require Import Params.
Import ListNotations.
Open Scope string_scope.

Definition qeq (tok : string) (q : Q) : bool := match dec tok with Some x => Qeq_bool x q | None => false end.
Inductive val := VS (s : string) | VQ (q : Q).
Definition veq (tok : string) (v : val) : bool := match v with VS s => String.eqb tok s | VQ q => qeq tok q end.
Definition oveq (o : option string) (v : option val) : bool :=
  match o, v with Some t, Some x => veq t x | None, None => true | _, _ => false end.

Inductive query :=
| QIm (a b : string) (v : option val)
| QPm (a b : string) (x y : Q)
| QNd (f k : string) (v : option Q)
| QSd (f k : string) (v : option string)
| QLd (f k : string) (v : list Q)
| QSl (f : string) (v : list string)
| QScQ (f : string) (v : Q)
| QScS (f : string) (v : string).

Fixpoint list_qeq (ts : list string) (qs : list Q) : bool :=
  match ts, qs with [], [] => true | t :: tr, q :: qr => qeq t q && list_qeq tr qr | _, _ => false end.
Fixpoint list_seq (a b : list string) : bool :=
  match a, b with [], [] => true | x :: xr, y :: yr => String.eqb x y && list_seq xr yr | _, _ => false end.

Definition answer (p : params) (q : query) : bool :=
  match q with
  | QIm a b v => oveq (im_get (imx p) a b) v
  | QPm a b x y => let '(s, t) := pm_get (cut p) a b in qeq s x && qeq t y
  | QNd f k v => match get2 (nd p) f k, v with Some t, Some x => qeq t x | None, None => true | _, _ => false end
  | QSd f k v => match get2 (sd p) f k, v with Some t, Some x => String.eqb t x | None, None => true | _, _ => false end
  | QLd f k v => list_qeq (match get2 (ld p) f k with Some l => l | None => [] end) v
  | QSl f v => list_seq (match dget f (sl p) with Some l => l | None => [] end) v
  | QScQ f v => match dget f (sc p) with Some t => qeq t v | None => false end
  | QScS f v => match dget f (sc p) with Some t => String.eqb t v | None => false end
  end.

(* outcome of a file: None = the implementation raised; Some qs = it parsed and answered qs.
   result: [] if the error status disagrees, else one boolean per query *)
Definition check_file (kinds : dict kind) (ls : list string) (expect : option (list query)) : list bool :=
  match parse_cfg kinds ls, expect with
  | None, None => [true]
  | Some p, Some qs => true :: map (answer p) qs
  | _, _ => [false]
  end.
