(* Hand-written models (over any Num instance) of
     ConformationContainer.calculate_charge / calculate_folding_energy,
     MolecularContainer.get_charge_profile / get_pi / get_folding_profile (optimum, 80 % range, stability range)
   on top of the GENERATED per-group functions of gen/GroupGen.v.
   Tie: correspondence in tools/props/c09.py, c10.py (float instance, bit for bit, 10**x / log10 from a table
   recorded in the same Python run). *)
From Coq Require Import List Bool ZArith.
From V Require Import Num GroupGen.
Import ListNotations.

Section Models.
Context {F : Type} {N : Num F}.
Definition fzero : F := nlit 0 1.

(* for group in self.get_titratable_groups(): unfolded += ...; folded += ...;  return unfolded, folded *)
Definition total_charge (gs : list (grp F)) (ph : F) : F * F :=
  fold_left (fun (acc : F * F) g => let '(u, f) := acc in
               (nadd u (calculate_charge_unfolded g ph), nadd f (calculate_charge_folded g ph)))
            (filter (fun g => grp_titratable g) gs) (fzero, fzero).

(* charge_profile.append([ph, q_unfolded, q_folded]) for ph in make_grid(grid...) *)
Definition charge_profile (gs : list (grp F)) (grid : list F) : list (F * F * F) :=
  map (fun ph => let '(u, f) := total_charge gs ph in (ph, u, f)) grid.

(* the nested function pi(which, pH, min_, max_) of get_pi; Q is the selected total-charge curve *)
Fixpoint pi (Q : F -> F) (prec : F) (fuel : nat) (pH lo hi : F) : option F :=
  match fuel with
  | O => None
  | S f =>
    let charge := Q pH in
    if nltb prec (nsub hi lo) then
      if nltb fzero charge then pi Q prec f (ndiv (nadd pH hi) (nlit 2 1)) pH hi
      else pi Q prec f (ndiv (nadd lo pH) (nlit 2 1)) lo pH
    else Some pH
  end.
Definition Qunfolded (gs : list (grp F)) (ph : F) : F := fst (total_charge gs ph).
Definition Qfolded (gs : list (grp F)) (ph : F) : F := snd (total_charge gs ph).
(* returns (pi(WHICH_FOLDED, start...), pi(WHICH_UNFOLDED, start...)) with start = (g0+g1)/2, g0, g1 *)
Definition get_pi (gs : list (grp F)) (g0 g1 prec : F) (fuel : nat) : option F * option F :=
  let mid := ndiv (nadd g0 g1) (nlit 2 1) in
  (pi (Qfolded gs) prec fuel mid g0 g1, pi (Qunfolded gs) prec fuel mid g0 g1).

(* ---- folding energy (C10) ---- *)
(* a group together with the values of its coulomb determinants *)
Definition gdet := (grp F * list F)%type.
Definition folding_energy_neutral (p : params F) (gs : list gdet) (ph : F) : F :=
  fold_left (fun ddg (g : gdet) => nadd ddg (calculate_folding_energy_neutral (fst g) p ph (snd g))) gs fzero.
Definition folding_energy_lowph (p : params F) (gs : list gdet) (ph : F) : F :=
  fold_left (fun ddg (g : gdet) => nadd ddg (calculate_folding_energy_lowph (fst g) p ph (snd g))) gs fzero.

(* opt = (None, 1e6); for point in profile: opt = min(opt, point, key=lambda v: v[1])   (first minimum wins) *)
Definition opt_step (opt : option F * F) (pt : F * F) : option F * F :=
  if nltb (snd pt) (snd opt) then (Some (fst pt), snd pt) else opt.
Definition optimum (profile : list (F * F)) : option F * F := fold_left opt_step profile (None, nlit 1000000 1).
(* min/max of a list of abscissae (None if empty), Python min()/max(): first extremal element *)
Definition list_min (l : list F) : option F :=
  match l with [] => None | x :: r => Some (fold_left (fun m y => if nltb y m then y else m) r x) end.
Definition list_max (l : list F) : option F :=
  match l with [] => None | x :: r => Some (fold_left (fun m y => if nltb m y then y else m) r x) end.
Definition range_of (l : list F) : option F * option F :=
  match l with [] => (None, None) | _ => (list_min l, list_max l) end.
Definition range_80pct (profile : list (F * F)) : option F * option F :=
  let opt := optimum profile in
  range_of (map fst (filter (fun p => nltb (snd p) (nmul (nlit 8 10) (snd opt))) profile)).
Definition stability_range (profile : list (F * F)) : option F * option F :=
  range_of (map fst (filter (fun p => nltb (snd p) fzero) profile)).
End Models.
