(* Hand-written executable model of propka/parameters.py: Parameters.parse_line dispatch (driven by the
   annotation table that tables.py re-extracts from the source), InteractionMatrix.add/get_value,
   PairwiseMatrix.add/insert/get_value, number/string/list dictionaries, string lists, scalars.
   Values are kept as the raw tokens of the file; numeric reading of decimal tokens is `dec`.
   Tie: correspondence (tools/props/c18.py) on the shipped file and on generated files. *)
From Coq Require Import String Ascii List Bool ZArith QArith.
Import ListNotations.
Open Scope string_scope.

Definition is_ws (c : ascii) : bool :=
  let n := nat_of_ascii c in
  (Nat.eqb n 32 || (Nat.leb 9 n && Nat.leb n 13) || (Nat.leb 28 n && Nat.leb n 31) || Nat.eqb n 133 || Nat.eqb n 160)%bool.
Fixpoint cut_comment (s : string) : string :=
  match s with
  | EmptyString => EmptyString
  | String c r => if Ascii.eqb c "#"%char then EmptyString else String c (cut_comment r)
  end.
(* str.split() *)
Fixpoint split_ws_aux (s : string) (cur : string) (acc : list string) : list string :=
  match s with
  | EmptyString => rev (if String.eqb cur "" then acc else cur :: acc)
  | String c r => if is_ws c then split_ws_aux r "" (if String.eqb cur "" then acc else cur :: acc)
                  else split_ws_aux r (cur ++ String c "") acc
  end.
Definition words (line : string) : list string := split_ws_aux (cut_comment line) "" [].

(* dict as association list; the most recent binding wins *)
Definition dict (V : Type) := list (string * V).
Fixpoint dget {V} (k : string) (d : dict V) : option V :=
  match d with [] => None | (k', v) :: r => if String.eqb k k' then Some v else dget k r end.
Definition dset {V} (k : string) (v : V) (d : dict V) : dict V := (k, v) :: d.
Definition drow {V} (k : string) (d : dict (dict V)) : dict V := match dget k d with Some r => r | None => [] end.
Definition get2 {V} (m : dict (dict V)) (a b : string) : option V :=
  match dget a m with Some r => dget b r | None => None end.
Definition set2 {V} (m : dict (dict V)) (a b : string) (v : V) : dict (dict V) := dset a (dset b v (drow a m)) m.

(* ---------------- InteractionMatrix ---------------- *)
Record imatrix := { ordered_keys : list string; imap : dict (dict string) }.
Definition im_add (m : imatrix) (ws : list string) : option imatrix :=
  if negb (Nat.eqb (length ws) (length (ordered_keys m) + 2)) then None   (* ValueError *)
  else match ws with
  | [] => None
  | new :: vals =>
    let keys := (ordered_keys m ++ [new])%list in
    let mp := fold_left (fun mp (kv : string * string) => let (g, v) := kv in set2 (set2 mp g new v) new g v)
                        (combine keys vals) (imap m) in
    Some {| ordered_keys := keys; imap := mp |}
  end.
Definition im_get (m : imatrix) (a b : string) : option string := get2 (imap m) a b.

(* ---------------- PairwiseMatrix ---------------- *)
Record pmatrix := { pdefault : string * string; pmap : dict (dict (string * string)) }.
Definition pm_add (m : pmatrix) (ws : list string) : option pmatrix :=
  match ws with
  | [d; a; b] => if String.eqb d "default" then Some {| pdefault := (a, b); pmap := pmap m |} else None
  | [g1; g2; a; b] => Some {| pdefault := pdefault m; pmap := set2 (set2 (pmap m) g1 g2 (a, b)) g2 g1 (a, b) |}
  | _ => None     (* AssertionError *)
  end.
Definition pm_get (m : pmatrix) (a b : string) : string * string :=
  match get2 (pmap m) a b with Some v => v | None => pdefault m end.

(* ---------------- Parameters ---------------- *)
Inductive kind := KNumDict | KStrList | KStr | KListDict | KMatrix | KPairMatrix | KStrDict | KInt | KFloat.
Record params := {
  imx : imatrix; cut : pmatrix;
  nd : dict (dict string);           (* number dictionaries: field -> key -> token *)
  sd : dict (dict string);           (* string dictionaries *)
  ld : dict (dict (list string));    (* list dictionaries: field -> key -> tokens (appended) *)
  sl : dict (list string);           (* string lists (appended) *)
  sc : dict string                   (* scalars / strings: field -> token *)
}.
Definition p0 : params := {|
  imx := {| ordered_keys := []; imap := [] |}; cut := {| pdefault := ("0.0", "0.0"); pmap := [] |};
  nd := []; sd := []; ld := []; sl := []; sc := [] |}.

Section Parse.
Variable kinds : dict kind.     (* Parameters.__annotations__, re-extracted from the source *)

Definition parse_words (p : params) (ws : list string) : option params :=
  match ws with
  | [] => Some p
  | w0 :: rest =>
    match (match dget w0 kinds with Some k => k | None => KFloat end) with
    | KMatrix => match im_add (imx p) rest with
                 | Some m => Some {| imx := m; cut := cut p; nd := nd p; sd := sd p; ld := ld p; sl := sl p; sc := sc p |}
                 | None => None end
    | KPairMatrix => match pm_add (cut p) rest with
                 | Some m => Some {| imx := imx p; cut := m; nd := nd p; sd := sd p; ld := ld p; sl := sl p; sc := sc p |}
                 | None => None end
    | KNumDict => match rest with
                 | [k; v] => Some {| imx := imx p; cut := cut p; nd := set2 (nd p) w0 k v; sd := sd p; ld := ld p; sl := sl p; sc := sc p |}
                 | _ => None end
    | KStrDict => match rest with
                 | [k; v] => Some {| imx := imx p; cut := cut p; nd := nd p; sd := set2 (sd p) w0 k v; ld := ld p; sl := sl p; sc := sc p |}
                 | _ => None end
    | KListDict => match rest with
                 | k :: v1 :: vs =>
                   let old := match get2 (ld p) w0 k with Some l => l | None => [] end in
                   Some {| imx := imx p; cut := cut p; nd := nd p; sd := sd p; ld := set2 (ld p) w0 k (old ++ v1 :: vs)%list;
                           sl := sl p; sc := sc p |}
                 | _ => None end
    | KStrList => match rest with
                 | [v] => Some {| imx := imx p; cut := cut p; nd := nd p; sd := sd p; ld := ld p;
                                  sl := dset w0 ((match dget w0 (sl p) with Some r => r | None => [] end) ++ [v])%list (sl p);
                                  sc := sc p |}
                 | _ => None end
    | KStr | KInt | KFloat => match rest with
                 | [v] => Some {| imx := imx p; cut := cut p; nd := nd p; sd := sd p; ld := ld p; sl := sl p; sc := dset w0 v (sc p) |}
                 | _ => None end
    end
  end.
Definition parse_line (p : option params) (line : string) : option params :=
  match p with None => None | Some p => parse_words p (words line) end.
Definition parse_cfg (ls : list string) : option params := fold_left parse_line ls (Some p0).
End Parse.

(* ---------------- decimal tokens as exact rationals ---------------- *)
Definition digit_of (c : ascii) : option Z :=
  let n := nat_of_ascii c in if (Nat.leb 48 n && Nat.leb n 57)%bool then Some (Z.of_nat (n - 48)) else None.
Fixpoint dec_digits (s : string) (acc : Z) (nd : nat) (seen_dot : bool) (scale : positive) (any : bool)
  : option (Z * positive) :=
  match s with
  | EmptyString => if any then Some (acc, scale) else None
  | String c r =>
    if Ascii.eqb c "."%char then (if seen_dot then None else dec_digits r acc nd true scale any)
    else match digit_of c with
         | Some d => dec_digits r (acc * 10 + d)%Z nd seen_dot (if seen_dot then (scale * 10)%positive else scale) true
         | None => None end
  end.
Definition dec (s : string) : option Q :=
  match s with
  | EmptyString => None
  | String c r =>
    let '(sign, body) := if Ascii.eqb c "-"%char then ((-1)%Z, r) else if Ascii.eqb c "+"%char then (1%Z, r) else (1%Z, s) in
    match dec_digits body 0 0 false 1 false with
    | Some (n, d) => Some (Qmake (sign * n) d)
    | None => None end
  end.

(* ---------------- squared cut-offs (descriptor squared_property) over any number type ---------------- *)
From V Require Import Num.
Section Squared.
Context {F : Type} {N : Num F}.
Record cutoffs := { desolv_cutoff : F; buried_cutoff : F; coulomb_cutoff1 : F; coulomb_cutoff2 : F }.
Inductive cname := Desolv | Buried | Coul1 | Coul2.
Definition cget (c : cutoffs) (n : cname) : F :=
  match n with Desolv => desolv_cutoff c | Buried => buried_cutoff c | Coul1 => coulomb_cutoff1 c | Coul2 => coulomb_cutoff2 c end.
Definition cset (c : cutoffs) (n : cname) (v : F) : cutoffs :=
  match n with
  | Desolv => {| desolv_cutoff := v; buried_cutoff := buried_cutoff c; coulomb_cutoff1 := coulomb_cutoff1 c; coulomb_cutoff2 := coulomb_cutoff2 c |}
  | Buried => {| desolv_cutoff := desolv_cutoff c; buried_cutoff := v; coulomb_cutoff1 := coulomb_cutoff1 c; coulomb_cutoff2 := coulomb_cutoff2 c |}
  | Coul1 => {| desolv_cutoff := desolv_cutoff c; buried_cutoff := buried_cutoff c; coulomb_cutoff1 := v; coulomb_cutoff2 := coulomb_cutoff2 c |}
  | Coul2 => {| desolv_cutoff := desolv_cutoff c; buried_cutoff := buried_cutoff c; coulomb_cutoff1 := coulomb_cutoff1 c; coulomb_cutoff2 := v |}
  end.
Definition sq_get (c : cutoffs) (n : cname) : F := nmul (cget c n) (cget c n).       (* getattr(...)**2 *)
Definition sq_set (c : cutoffs) (n : cname) (v : F) : cutoffs := cset c n (nsqrt v).  (* value**0.5 *)
Inductive cop := SetPlain (n : cname) (v : F) | SetSquared (n : cname) (v : F).
Definition cstep (c : cutoffs) (o : cop) : cutoffs :=
  match o with SetPlain n v => cset c n v | SetSquared n v => sq_set c n v end.
Definition crun (c : cutoffs) (ops : list cop) : cutoffs := fold_left cstep ops c.
End Squared.
Arguments cutoffs F : clear implicits.
Arguments cop F : clear implicits.
