(* C03 model: a run as a sequence of accesses to process-global cells (attributes of module-level / class-level objects).
   Reads observe the cell; the value written by a write is a function of the input and of what the run has read so far.
   The accesses of the real global objects are re-extracted from the source on every run (gen/Inventory_gen.v: global_object_events). *)
From Coq Require Import List Bool ZArith String.
Import ListNotations.

Definition cell := nat.
Definition store := cell -> Z.
Inductive op (I : Type) := Rd (c : cell) | Wr (c : cell) (f : I -> list Z -> Z).
Arguments Rd {I}. Arguments Wr {I}.
Definition upd (s : store) (c : cell) (v : Z) : store := fun d => if Nat.eqb d c then v else s d.
(* what the run observes of the global state (outputs are functions of the input and of these observations), and the state it leaves *)
Fixpoint exec {I} (s : store) (inp : I) (seen : list Z) (ops : list (op I)) : list Z * store :=
  match ops with
  | [] => (seen, s)
  | Rd c :: r => exec s inp (seen ++ [s c]) r
  | Wr c f :: r => exec (upd s c (f inp seen)) inp seen r
  end.
Fixpoint covered {I} (written : list cell) (ops : list (op I)) : bool :=
  match ops with
  | [] => true
  | Rd c :: r => existsb (Nat.eqb c) written && covered written r
  | Wr c _ :: r => covered (c :: written) r
  end.

(* inventory helpers over the extracted table *)
Open Scope string_scope.
Definition events_t := list (string * string * list (string * string)).
Definition runtime_mutations (ev : events_t) : list (string * string * string * string) :=
  flat_map (fun e => let '(c, m, l) := e in
            if String.eqb m "__init__" || String.eqb m "__set_name__" then []
            else map (fun ak => (c, m, fst ak, snd ak)) (filter (fun ak => negb (String.eqb (snd ak) "R")) l)) ev.
Fixpoint first_access (attr : string) (l : list (string * string)) : option string :=
  match l with [] => None | (a, k) :: r => if String.eqb a attr then Some k else first_access attr r end.
Fixpoint method_events (ev : events_t) (c m : string) : list (string * string) :=
  match ev with [] => [] | (c', m', l) :: r => if String.eqb c c' && String.eqb m m' then l else method_events r c m end.
