(* Hand-written executable model of propka/input.py:get_atom_lines_from_pdb and propka/atom.py:Atom.set_properties.
   Lines are the elements of handle.readlines() (they keep their trailing newline).  Exceptions are explicit.
   Tie: correspondence in tools/vlib/parsecorr.py (every test PDB, mutated copies, malformed stream). *)
From Coq Require Import String Ascii List Bool ZArith.
From V Require Hy36.
From V Require Import PyString.
Import ListNotations.
Open Scope string_scope.

(* ------------------------------------------------------------------ Atom.set_properties *)
Record atomrec := {
  a_name : string; a_numb : Z; a_x : string; a_y : string; a_z : string;   (* coordinates: the stripped text; float() accepted it *)
  a_res_num : Z; a_res_name : string; a_chain : string; a_type : string;
  a_occ : string; a_beta : string; a_icode : string; a_element : string }.

Definition dna_names := ["DA "; "DC "; "DG "; "DT "].

Definition element_of (line name : string) : result string :=
  let e0 := strip_digits (strip (slice 12 14 line)) in
  do e1 <- (if Nat.eqb (String.length name) 4
            then match e0 with String c _ => Ok (String c EmptyString) | EmptyString => Err IndexError end
            else Ok e0);
  Ok (match e1 with
      | String c1 (String c2 EmptyString) => String c1 (String (lower_char c2) EmptyString)
      | _ => e1 end).

Definition float_field (s : string) : result string := let t := strip s in if py_float_ok t then Ok t else Err ValueError.

Definition mk_atom (line : string) : result atomrec :=
  let name := strip (slice 12 16 line) in
  do numb <- (match Hy36.decode (list_ascii_of_string (slice 6 11 line)) with Hy36.Ok z => Ok z | Hy36.ValueError => Err ValueError end);
  do x <- float_field (slice 30 38 line);
  do y <- float_field (slice 38 46 line);
  do z <- float_field (slice 46 54 line);
  do res_num <- py_int (strip (slice 22 26 line));
  let res_name := ljust 3 (strip (slice 17 20 line)) in
  do c21 <- idx 21 line;
  let chain := match strip (String c21 EmptyString) with EmptyString => "_" | s => s end in
  let ty0 := lower (strip (slice 0 6 line)) in
  let ty := if mem_str res_name dna_names then "hetatm" else ty0 in
  do el <- element_of line name;
  Ok {| a_name := name; a_numb := numb; a_x := x; a_y := y; a_z := z; a_res_num := res_num; a_res_name := res_name;
        a_chain := chain; a_type := ty; a_occ := strip (slice 55 60 line); a_beta := strip (slice 60 66 line);
        a_icode := slice 26 27 line; a_element := el |}.

(* ------------------------------------------------------------------ get_atom_lines_from_pdb *)
Record opts := { ignore_residues : list string; keep_protons : bool; chains : list ascii (* [] = option absent *) }.
(* state: model number, nterm_residue (None = 'next_residue'), old_residue (None = None) *)
Record st := { model : Z; nt : option string; oldres : option string }.
Definition st0 : st := {| model := 1; nt := None; oldres := None |}.

Inductive terminal := TNone | TNplus | TCminus.
Record out := { o_model : Z; o_alt : ascii; o_atom : atomrec; o_term : terminal }.

Definition is_ter (tag : string) : bool := String.eqb (strip tag) "TER".   (* 'TER   ', or an unpadded 'TER' + newline *)
Definition is_atom_tag (tag : string) : bool := String.eqb tag "ATOM  " || String.eqb tag "HETATM".
Definition conv_alt (c : ascii) : ascii :=
  let n := code c in
  if Nat.leb 49 n && Nat.leb n 57 then ascii_of_nat (n + 16)
  else if Ascii.eqb c " "%char then "A"%char else c.
Definition opt_eqb (o : option string) (r : string) : bool := match o with Some x => String.eqb x r | None => false end.
Definition opt_neqb (o : option string) (r : string) : bool := match o with Some x => negb (String.eqb x r) | None => true end.

Definition step (o : opts) (s : st) (line : string) : result (st * list out) :=
  let tag := slice 0 6 line in
  do s <- (if String.eqb tag "MODEL "
           then do m <- py_int (slice_from 6 line); Ok {| model := m; nt := None; oldres := oldres s |}
           else Ok s);
  let s := if is_ter tag then {| model := model s; nt := None; oldres := oldres s |} else s in
  if negb (is_atom_tag tag) then Ok (s, [])
  else
    do alt <- idx 16 line;
    let name := slice 12 16 line in
    let resnum := slice 21 27 line in   (* chain, number, insertion code *)
    if mem_str (slice 17 20 line) (ignore_residues o) then Ok (s, [])
    else
      do selected <- (match chains o with
                      | [] => Ok true
                      | cs => do c <- idx 21 line; Ok (mem_chr c cs)
                      end);
      if negb selected then Ok (s, [])
      else
        let is_atom := String.eqb tag "ATOM  " in
        let s := match nt s with
                 | None => if is_atom && opt_neqb (oldres s) resnum
                           then {| model := model s; nt := Some resnum; oldres := None |} else s
                 | Some _ => s end in
        let alt := conv_alt alt in
        let nm := strip name in
        let term1 := if is_atom && String.eqb nm "N" && opt_eqb (nt s) resnum then TNplus else TNone in
        let is_oxt := is_atom && (String.eqb nm "OXT" || String.eqb nm "O''") in
        let term := if is_oxt then TCminus else term1 in
        let s := if is_oxt then {| model := model s; nt := None; oldres := Some resnum |} else s in
        do a <- mk_atom line;
        let o1 := {| o_model := model s; o_alt := alt; o_atom := a; o_term := term |} in
        if String.eqb (a_element a) "H" && negb (keep_protons o) then Ok (s, []) else Ok (s, [o1])
  .

Fixpoint run (o : opts) (s : st) (ls : list string) : result (list out) :=
  match ls with
  | [] => Ok []
  | l :: r => do so <- step o s l; do os <- run o (fst so) r; Ok (snd so ++ os)%list
  end.
Definition parse (o : opts) (ls : list string) : result (list out) := run o st0 ls.

(* conformation name '{model:d}{alt:s}' and the sort key of input.conformation_sorter: model*100 + ord(alt) *)
Definition conf_key (x : out) : Z := (o_model x * 100 + Z.of_nat (code (o_alt x)))%Z.

(* ------------------------------------------------------------------ rendering for the correspondence (numbers only) *)
Definition term_code (t : terminal) : Z := match t with TNone => 0 | TNplus => 1 | TCminus => 2 end.
Definition render_out (x : out) : list (list Z) :=
  let a := o_atom x in
  [ [o_model x; Z.of_nat (code (o_alt x)); term_code (o_term x); a_numb a; a_res_num a];
    codes (a_name a); codes (a_x a); codes (a_y a); codes (a_z a); codes (a_res_name a); codes (a_chain a); codes (a_type a);
    codes (a_occ a); codes (a_beta a); codes (a_icode a); codes (a_element a) ].
Definition render (r : result (list out)) : list (list (list Z)) :=
  match r with
  | Ok l => [[1%Z]] :: map render_out l
  | Err IndexError => [[[(-1)%Z]]]
  | Err ValueError => [[[(-2)%Z]]]
  end.
