(* Spike: cell-list bond search = all-pairs rule (C11 core). *)
From Coq Require Import List Bool ZArith Lia Permutation.
Import ListNotations.
Open Scope Z_scope.

Definition cellT := (Z * Z * Z)%type.
Definition cadd (c d : cellT) : cellT := let '(x,y,z) := c in let '(a,b,e) := d in (x+a, y+b, z+e).
Definition cneg (d : cellT) : cellT := let '(a,b,e) := d in (-a,-b,-e).
Definition ceqb (c d : cellT) : bool := let '(x,y,z) := c in let '(a,b,e) := d in (x =? a) && (y =? b) && (z =? e).

Lemma ceqb_eq c d : ceqb c d = true <-> c = d.
Proof. destruct c as [[x y] z], d as [[a b] e]; unfold ceqb. rewrite !andb_true_iff, !Z.eqb_eq. split; [intros [[? ?] ?]; congruence| intros H; inversion H; auto]. Qed.

(* the literal of bonds.py, as the table extractor would emit it *)
Definition offsets : list cellT :=
  [(-1,-1,-1); (-1,-1,0); (-1,-1,1); (-1,0,-1); (-1,0,0); (-1,0,1); (-1,1,-1); (-1,1,0); (-1,1,1);
   (0,-1,-1); (0,-1,0); (0,-1,1); (0,0,-1)].

Definition unit_range := [-1; 0; 1].
Definition all_dirs : list cellT :=
  flat_map (fun a => flat_map (fun b => map (fun c => (a,b,c)) unit_range) unit_range) unit_range.
Definition mem_cell (d : cellT) (l : list cellT) := existsb (ceqb d) l.

(* every non-zero direction is covered exactly once, up to sign *)
Lemma offsets_half_space :
  forallb (fun d => if ceqb d (0,0,0) then true else xorb (mem_cell d offsets) (mem_cell (cneg d) offsets)) all_dirs = true.
Proof. vm_compute. reflexivity. Qed.

Section Cells.
Variable atom : Type.
Variable cell : atom -> cellT.
Variable check : atom -> atom -> bool.      (* _find_bonds_for_atoms would bond this ordered pair *)
Hypothesis check_sym : forall a b, check a b = check b a.
Definition adjacent (c d : cellT) : Prop :=
  let '(x,y,z) := c in let '(a,b,e) := d in Z.abs (x-a) <= 1 /\ Z.abs (y-b) <= 1 /\ Z.abs (z-e) <= 1.
Hypothesis check_near : forall a b, check a b = true -> adjacent (cell a) (cell b).

(* atoms are identified by their index in the input list, like Python object identity *)
Definition iatom := (nat * atom)%type.
Fixpoint number (n : nat) (l : list atom) : list iatom :=
  match l with [] => [] | a :: r => (n, a) :: number (S n) r end.

(* boxes: association list cell -> atoms, insertion order (dict.setdefault(...).append) *)
Fixpoint box_add (c : cellT) (a : iatom) (bs : list (cellT * list iatom)) : list (cellT * list iatom) :=
  match bs with
  | [] => [(c, [a])]
  | (c', l) :: r => if ceqb c c' then (c', l ++ [a]) :: r else (c', l) :: box_add c a r
  end.
Definition boxes (l : list iatom) := fold_left (fun bs a => box_add (cell (snd a)) a bs) l [].
Fixpoint box_get (c : cellT) (bs : list (cellT * list iatom)) : option (list iatom) :=
  match bs with [] => None | (c', l) :: r => if ceqb c c' then Some l else box_get c r end.

Fixpoint pairs_within (l : list iatom) : list (iatom * iatom) :=
  match l with [] => [] | a :: r => map (fun b => (a, b)) r ++ pairs_within r end.
Definition pairs_between (l1 l2 : list iatom) : list (iatom * iatom) :=
  flat_map (fun a => map (fun b => (a, b)) l2) l1.

(* the pairs the cell-list loop hands to _find_bonds_for_atoms *)
Definition examined (bs : list (cellT * list iatom)) : list (iatom * iatom) :=
  flat_map (fun cb : cellT * list iatom =>
     let (c, v) := cb in
     pairs_within v ++
     flat_map (fun d => match box_get (cadd c d) bs with Some v2 => pairs_between v v2 | None => [] end) offsets) bs.

Definition bonded (p : iatom * iatom) : bool := check (snd (fst p)) (snd (snd p)).
Definition bonds_boxes (l : list atom) := filter bonded (examined (boxes (number 0 l))).
Definition bonds_spec (l : list atom) := filter bonded (pairs_within (number 0 l)).

(* unordered-pair membership by index *)
Definition upair_in (i j : nat) (ps : list (iatom * iatom)) : Prop :=
  exists a b, (In ((i,a),(j,b)) ps \/ In ((j,b),(i,a)) ps).

(* --- box lemmas --- *)
Lemma box_add_get_same c a bs : exists l, box_get c (box_add c a bs) = Some l /\ In a l /\
  (forall x, (match box_get c bs with Some l0 => In x l0 | None => False end) -> In x l).
Proof.
  induction bs as [|[c' l'] r IH]; simpl.
  - rewrite (proj2 (ceqb_eq c c) eq_refl). exists [a]. simpl; intuition.
  - destruct (ceqb c c') eqn:E; simpl; rewrite E.
    + exists (l' ++ [a]). split; [reflexivity|]. split; [apply in_or_app; right; simpl; auto|]. intros x Hx. apply in_or_app; auto.
    + exact IH.
Qed.
Lemma box_add_get_other c c2 a bs : ceqb c2 c = false -> box_get c2 (box_add c a bs) = box_get c2 bs.
Proof.
  intros Hne. induction bs as [|[c' l'] r IH]; simpl.
  - rewrite Hne. reflexivity.
  - destruct (ceqb c c') eqn:E; simpl.
    + apply ceqb_eq in E; subst c'. rewrite Hne. reflexivity.
    + destruct (ceqb c2 c'); auto.
Qed.

Lemma boxes_complete_aux : forall l bs0 x,
  (In x l \/ (match box_get (cell (snd x)) bs0 with Some l0 => In x l0 | None => False end)) ->
  exists lx, box_get (cell (snd x)) (fold_left (fun bs a => box_add (cell (snd a)) a bs) l bs0) = Some lx /\ In x lx.
Proof.
  induction l as [|a r IH]; intros bs0 x H; simpl.
  - destruct H as [[]|H]. destruct (box_get (cell (snd x)) bs0); [eauto|contradiction].
  - apply IH. destruct H as [[->|H]|H]; [right| left; exact H | right].
    + destruct (box_add_get_same (cell (snd x)) x bs0) as [l0 [-> [Hin _]]]. exact Hin.
    + destruct (ceqb (cell (snd x)) (cell (snd a))) eqn:E.
      * apply ceqb_eq in E. rewrite E in *. destruct (box_add_get_same (cell (snd a)) a bs0) as [l0 [-> [_ Hk]]]. apply Hk; exact H.
      * rewrite box_add_get_other by exact E. exact H.
Qed.
Lemma boxes_complete l x : In x l -> exists lx, box_get (cell (snd x)) (boxes l) = Some lx /\ In x lx.
Proof. intros; apply boxes_complete_aux; auto. Qed.

Lemma box_get_in c bs v : box_get c bs = Some v -> In (c, v) bs.
Proof.
  induction bs as [|[c' l'] r IH]; simpl; [discriminate|].
  destruct (ceqb c c') eqn:E.
  - intros H; inversion H; subst. apply ceqb_eq in E; subst. left; reflexivity.
  - intros H; right; auto.
Qed.

Lemma pairs_within_complete : forall (v : list iatom) x y, In x v -> In y v -> x <> y ->
  In (x, y) (pairs_within v) \/ In (y, x) (pairs_within v).
Proof.
  induction v as [|h t IH]; intros x y Hx Hy Hne; [contradiction|]. simpl in *.
  destruct Hx as [->|Hx], Hy as [->|Hy].
  - congruence.
  - left. apply in_or_app; left. apply in_map_iff; eauto.
  - right. apply in_or_app; left. apply in_map_iff; eauto.
  - destruct (IH x y Hx Hy Hne); [left|right]; apply in_or_app; right; assumption.
Qed.

Lemma pairs_between_complete (v1 v2 : list iatom) x y : In x v1 -> In y v2 -> In (x, y) (pairs_between v1 v2).
Proof. intros. unfold pairs_between. apply in_flat_map. exists x; split; auto. apply in_map_iff; eauto. Qed.

Lemma mem_cell_in d l : mem_cell d l = true -> In d l.
Proof. unfold mem_cell. rewrite existsb_exists. intros [x [Hx E]]. apply ceqb_eq in E; subst; auto. Qed.

Lemma adjacent_dir c1 c2 : adjacent c1 c2 -> c1 <> c2 ->
  exists d, In d all_dirs /\ ceqb d (0,0,0) = false /\ c2 = cadd c1 d /\ c1 = cadd c2 (cneg d).
Proof.
  destruct c1 as [[x y] z], c2 as [[a b] e]. unfold adjacent. intros (Hx & Hy & Hz) Hne.
  exists (a - x, b - y, e - z). split; [|split; [|split]].
  - assert (Ha : a - x = -1 \/ a - x = 0 \/ a - x = 1) by lia.
    assert (Hb : b - y = -1 \/ b - y = 0 \/ b - y = 1) by lia.
    assert (He : e - z = -1 \/ e - z = 0 \/ e - z = 1) by lia.
    destruct Ha as [->|[->| ->]], Hb as [->|[->| ->]], He as [->|[->| ->]]; vm_compute; tauto.
  - destruct (ceqb (a - x, b - y, e - z) (0,0,0)) eqn:E; [|reflexivity].
    apply ceqb_eq in E. inversion E. exfalso. apply Hne. f_equal; [f_equal|]; lia.
  - unfold cadd. f_equal; [f_equal|]; lia.
  - unfold cadd, cneg. f_equal; [f_equal|]; lia.
Qed.

Lemma half_space d : In d all_dirs -> ceqb d (0,0,0) = false -> In d offsets \/ In (cneg d) offsets.
Proof.
  intros Hin Hnz. pose proof offsets_half_space as H. rewrite forallb_forall in H. specialize (H d Hin).
  rewrite Hnz in H. destruct (mem_cell d offsets) eqn:E1; [left; apply mem_cell_in; auto|].
  destruct (mem_cell (cneg d) offsets) eqn:E2; [right; apply mem_cell_in; auto| discriminate].
Qed.

Lemma examined_between bs c v d v2 x y : In (c, v) bs -> In d offsets -> box_get (cadd c d) bs = Some v2 ->
  In x v -> In y v2 -> In (x, y) (examined bs).
Proof.
  intros Hc Hd Hg Hx Hy. unfold examined. apply in_flat_map. exists (c, v). split; [assumption|].
  apply in_or_app. right. apply in_flat_map. exists d. split; [assumption|]. rewrite Hg. apply pairs_between_complete; assumption.
Qed.

(* completeness: every pair the O(n^2) rule bonds is handed to the pair test by the cell list *)
Theorem examined_complete : forall (L : list iatom) x y, In x L -> In y L -> x <> y ->
  check (snd x) (snd y) = true ->
  In (x, y) (examined (boxes L)) \/ In (y, x) (examined (boxes L)).
Proof.
  intros L x y Hx Hy Hne Hc.
  destruct (boxes_complete L x Hx) as [vx [Gx Ix]].
  destruct (boxes_complete L y Hy) as [vy [Gy Iy]].
  pose proof (check_near _ _ Hc) as Hadj.
  destruct (ceqb (cell (snd x)) (cell (snd y))) eqn:E.
  - apply ceqb_eq in E. rewrite <- E in Gy. rewrite Gx in Gy. inversion Gy; subst vy.
    destruct (pairs_within_complete vx x y Ix Iy Hne) as [H|H]; [left|right];
      unfold examined; apply in_flat_map; exists (cell (snd x), vx); (split; [apply box_get_in; assumption| apply in_or_app; left; assumption]).
  - assert (Hcne : cell (snd x) <> cell (snd y)) by (intros H; apply ceqb_eq in H; congruence).
    destruct (adjacent_dir _ _ Hadj Hcne) as [d (Hd & Hnz & Hy2 & Hx2)].
    destruct (half_space d Hd Hnz) as [Ho|Ho].
    + left. apply (examined_between (boxes L) (cell (snd x)) vx d vy); auto using box_get_in. rewrite <- Hy2. exact Gy.
    + right. apply (examined_between (boxes L) (cell (snd y)) vy (cneg d) vx); auto using box_get_in. rewrite <- Hx2. exact Gx.
Qed.
End Cells.
Print Assumptions examined_complete.
