From Coq Require Import Reals Lra Nsatz Psatz.
Open Scope R_scope.

Record V3 := mk { vx : R; vy : R; vz : R }.
Definition rotz (t : R) (v : V3) : V3 :=
  mk (cos t * vx v - sin t * vy v) (sin t * vx v + cos t * vy v) (vz v).
Definition roty (t : R) (v : V3) : V3 :=
  mk (cos t * vx v + sin t * vz v) (vy v) (- sin t * vx v + cos t * vz v).
Definition cross a b := mk (vy a * vz b - vz a * vy b) (vz a * vx b - vx a * vz b) (vx a * vy b - vy a * vx b).
Definition dot a b := vx a * vx b + vy a * vy b + vz a * vz b.
Definition scal k a := mk (k * vx a) (k * vy a) (k * vz a).
Definition add a b := mk (vx a + vx b) (vy a + vy b) (vz a + vz b).
Definition norm a := sqrt (dot a a).
Definition rodrigues t k v := add (add (scal (cos t) v) (scal (sin t) (cross k v))) (scal (dot k v * (1 - cos t)) k).

Definition Rneqb (a b : R) : bool := if Req_EM_T a b then false else true.

(* shape the translator would produce from vector_algebra.rotate_vector_around_an_axis *)
Definition rotate (theta : R) (axis vec : V3) : V3 :=
  let gamma0 := 0 in
  let '(gamma, vec, axis) :=
    if Rneqb (vy axis) 0 then
      let gamma := if Rneqb (vx axis) 0
                   then - vx axis / Rabs (vx axis) * asin (vy axis / sqrt (vx axis * vx axis + vy axis * vy axis))
                   else PI / 2 in
      (gamma, rotz gamma vec, rotz gamma axis)
    else (gamma0, vec, axis) in
  let beta0 := 0 in
  let '(beta, vec, axis) :=
    if Rneqb (vx axis) 0 then
      let beta := - vx axis / Rabs (vx axis) * acos (vz axis / sqrt (vx axis * vx axis + vz axis * vz axis)) in
      (beta, roty beta vec, roty beta axis)
    else (beta0, vec, axis) in
  let vec := rotz theta vec in
  let vec := roty (- beta) vec in
  rotz (- gamma) vec.

Lemma conj_is_rodrigues : forall t b g v,
  rotz (-g) (roty (-b) (rotz t (roty b (rotz g v)))) =
  rodrigues t (rotz (-g) (roty (-b) (mk 0 0 1))) v.
Proof.
  intros. unfold rodrigues, rotz, roty, add, scal, cross, dot; simpl.
  rewrite !cos_neg, !sin_neg.
  pose proof (sin2_cos2 b) as Hb. pose proof (sin2_cos2 g) as Hg. unfold Rsqr in *.
  set (cb := cos b) in *. set (sb := sin b) in *. set (cg := cos g) in *. set (sg := sin g) in *.
  set (ct := cos t). set (st := sin t).
  f_equal; nsatz.
Qed.

Lemma rotz_0 v : rotz 0 v = v.
Proof. destruct v; unfold rotz; simpl. rewrite cos_0, sin_0. f_equal; ring. Qed.
Lemma roty_0 v : roty 0 v = v.
Proof. destruct v; unfold roty; simpl. rewrite cos_0, sin_0. f_equal; ring. Qed.

(* inverse rotations *)
Lemma rotz_inv g v : rotz (-g) (rotz g v) = v.
Proof. destruct v; unfold rotz; simpl. rewrite cos_neg, sin_neg. pose proof (sin2_cos2 g) as H; unfold Rsqr in H. f_equal; nsatz. Qed.
Lemma roty_inv g v : roty (-g) (roty g v) = v.
Proof. destruct v; unfold roty; simpl. rewrite cos_neg, sin_neg. pose proof (sin2_cos2 g) as H; unfold Rsqr in H. f_equal; nsatz. Qed.

(* key: the two alignment rotations send the axis to (0,0,|axis|) *)
Definition sgn x := x / Rabs x.

Lemma sgn_sq x : x <> 0 -> sgn x * sgn x = 1.
Proof. intros. unfold sgn. unfold Rabs. destruct (Rcase_abs x); field; lra. Qed.
Lemma sgn_abs x : x <> 0 -> sgn x * Rabs x = x.
Proof. intros. unfold sgn. field. apply Rabs_no_R0; auto. Qed.

Lemma cos_sgn_mul s a : s * s = 1 -> cos (- s * a) = cos a.
Proof. intros H. assert (s = 1 \/ s = -1) as [->| ->] by (assert ((s-1)*(s+1)=0) by nsatz; apply Rmult_integral in H0; destruct H0; [left|right]; lra).
  - replace (-(1) * a) with (- a) by ring. apply cos_neg.
  - replace (- -1 * a) with a by ring. reflexivity. Qed.
Lemma sin_sgn_mul s a : s * s = 1 -> sin (- s * a) = - s * sin a.
Proof. intros H. assert (s = 1 \/ s = -1) as [->| ->] by (assert ((s-1)*(s+1)=0) by nsatz; apply Rmult_integral in H0; destruct H0; [left|right]; lra).
  - replace (-(1) * a) with (- a) by ring. rewrite sin_neg. ring.
  - replace (- -1 * a) with a by ring. ring. Qed.

Lemma align_z x y z : y <> 0 -> x <> 0 ->
  let r := sqrt (x*x + y*y) in
  let gamma := - x / Rabs x * asin (y / r) in
  rotz gamma (mk x y z) = mk (sgn x * r) 0 z.
Proof.
  intros Hy Hx r gamma.
  assert (Hr2 : 0 < x*x + y*y) by nra.
  assert (Hr : 0 < r) by (apply sqrt_lt_R0; exact Hr2).
  assert (Hrr : r * r = x*x + y*y) by (apply sqrt_sqrt; lra).
  assert (Hb : -1 <= y / r <= 1).
  { assert (Hyr : y*y <= r*r) by nra.
    assert (Hlo : - r <= y) by nra. assert (Hhi : y <= r) by nra.
    split; apply Rmult_le_reg_r with r; try lra; unfold Rdiv; rewrite Rmult_assoc, Rinv_l by lra; lra. }
  unfold gamma. replace (- x / Rabs x) with (- sgn x) by (unfold sgn; field; apply Rabs_no_R0; auto).
  unfold rotz; simpl.
  rewrite cos_sgn_mul, sin_sgn_mul by (apply sgn_sq; auto).
  rewrite sin_asin by exact Hb. rewrite cos_asin by exact Hb.
  assert (Haa : Rabs x * Rabs x = x * x) by (unfold Rabs; destruct (Rcase_abs x); ring).
  assert (Hs : sqrt (1 - (y / r)²) = Rabs x / r).
  { replace (1 - (y/r)²) with ((Rabs x / r)²).
    - apply sqrt_Rsqr. apply Rmult_le_pos; [apply Rabs_pos| left; apply Rinv_0_lt_compat; lra].
    - unfold Rsqr. apply Rmult_eq_reg_r with (r * r); [|nra].
      replace (Rabs x / r * (Rabs x / r) * (r * r)) with (Rabs x * Rabs x) by (field; lra).
      replace ((1 - y / r * (y / r)) * (r * r)) with (r * r - y * y) by (field; lra).
      rewrite Haa, Hrr. ring. }
  rewrite Hs.
  pose proof (sgn_abs x Hx) as Hsa. pose proof (sgn_sq x Hx) as Hss.
  set (s := sgn x) in *. set (a := Rabs x) in *.
  assert (Hri : r <> 0) by lra. clear Hs Hb. clearbody s a. clear gamma. clearbody r.
  f_equal.
  - apply Rmult_eq_reg_r with r; [|exact Hri].
    replace ((a / r * x - - s * (y / r) * y) * r) with (a * x + s * y * y) by (field; exact Hri).
    nsatz.
  - apply Rmult_eq_reg_r with r; [|exact Hri].
    replace ((- s * (y / r) * x + a / r * y) * r) with (y * (a - s * x)) by (field; exact Hri).
    nsatz.
Qed.

(* ---------- second alignment: rotation about y ---------- *)
Lemma align_y x z : x <> 0 ->
  let L := sqrt (x*x + z*z) in
  let beta := - x / Rabs x * acos (z / L) in
  roty beta (mk x 0 z) = mk 0 0 L.
Proof.
  intros Hx L beta.
  assert (HL2 : 0 < x*x + z*z) by nra.
  assert (HL : 0 < L) by (apply sqrt_lt_R0; exact HL2).
  assert (HLL : L * L = x*x + z*z) by (apply sqrt_sqrt; lra).
  assert (Hb : -1 <= z / L <= 1).
  { assert (Hlo : - L <= z) by nra. assert (Hhi : z <= L) by nra.
    split; apply Rmult_le_reg_r with L; try lra; unfold Rdiv; rewrite Rmult_assoc, Rinv_l by lra; lra. }
  unfold beta. replace (- x / Rabs x) with (- sgn x) by (unfold sgn; field; apply Rabs_no_R0; auto).
  unfold roty; simpl.
  rewrite cos_sgn_mul, sin_sgn_mul by (apply sgn_sq; auto).
  rewrite cos_acos by exact Hb. rewrite sin_acos by exact Hb.
  assert (Haa : Rabs x * Rabs x = x * x) by (unfold Rabs; destruct (Rcase_abs x); ring).
  assert (Hs : sqrt (1 - (z / L)²) = Rabs x / L).
  { replace (1 - (z/L)²) with ((Rabs x / L)²).
    - apply sqrt_Rsqr. apply Rmult_le_pos; [apply Rabs_pos| left; apply Rinv_0_lt_compat; lra].
    - unfold Rsqr. apply Rmult_eq_reg_r with (L * L); [|nra].
      replace (Rabs x / L * (Rabs x / L) * (L * L)) with (Rabs x * Rabs x) by (field; lra).
      replace ((1 - z / L * (z / L)) * (L * L)) with (L * L - z * z) by (field; lra).
      rewrite Haa, HLL. ring. }
  rewrite Hs.
  pose proof (sgn_abs x Hx) as Hsa. pose proof (sgn_sq x Hx) as Hss.
  set (s := sgn x) in *. set (a := Rabs x) in *.
  assert (Hri : L <> 0) by lra. clear Hs Hb. clearbody s a. clear beta. clearbody L.
  f_equal.
  - apply Rmult_eq_reg_r with L; [|exact Hri].
    replace ((z / L * x + - s * (a / L) * z) * L) with (z * (x - s * a)) by (field; exact Hri). nsatz.
  - apply Rmult_eq_reg_r with L; [|exact Hri].
    replace ((- (- s * (a / L)) * x + z / L * z) * L) with (s * a * x + z * z) by (field; exact Hri). nsatz.
Qed.

Lemma rotz_pi2 x y z : rotz (PI / 2) (mk x y z) = mk (- y) x z.
Proof. unfold rotz; simpl. rewrite cos_PI2, sin_PI2. f_equal; ring. Qed.

Definition unit_of (a : V3) : V3 := scal (/ norm a) a.

Lemma Rneqb_true a b : Rneqb a b = true <-> a <> b.
Proof. unfold Rneqb. destruct (Req_EM_T a b); split; intros; congruence. Qed.
Lemma Rneqb_false a b : Rneqb a b = false <-> a = b.
Proof. unfold Rneqb. destruct (Req_EM_T a b); split; intros; congruence. Qed.

(* the general shape: if M = Ry(b) Rz(g) carries the axis to (0,0,L), L>0, the code's result is Rodrigues about axis/|axis| *)
Lemma by_alignment t g b axis v L : 0 < L ->
  roty b (rotz g axis) = mk 0 0 L ->
  rotz (- g) (roty (- b) (rotz t (roty b (rotz g v)))) = rodrigues t (unit_of axis) v.
Proof.
  intros HL Hal. rewrite conj_is_rodrigues. f_equal.
  assert (Hax : axis = rotz (- g) (roty (- b) (mk 0 0 L))) by (rewrite <- Hal, roty_inv, rotz_inv; reflexivity).
  assert (Hn : norm axis = L).
  { rewrite Hax. unfold norm, dot, rotz, roty; simpl. rewrite !cos_neg, !sin_neg.
    replace (_ + _ + _) with (L * L * ((cos g * cos g + sin g * sin g) * (sin b * sin b) + cos b * cos b)) by ring.
    pose proof (sin2_cos2 g) as Hg. pose proof (sin2_cos2 b) as Hb. unfold Rsqr in *.
    replace (cos g * cos g + sin g * sin g) with 1 by lra. replace (1 * (sin b * sin b) + cos b * cos b) with 1 by lra.
    rewrite Rmult_1_r. apply sqrt_square. lra. }
  unfold unit_of. rewrite Hn. clear Hn. rewrite Hax. clear Hax Hal.
  unfold scal, rotz, roty; simpl. f_equal; field; lra.
Qed.

Lemma neg0 : - 0 = 0. Proof. ring. Qed.

Theorem rotate_is_rodrigues t axis v :
  (vx axis <> 0 \/ vy axis <> 0 \/ 0 < vz axis) ->
  rotate t axis v = rodrigues t (unit_of axis) v.
Proof.
  destruct axis as [x y z]. simpl. intros Hax. unfold rotate. cbn [vx vy vz].
  destruct (Rneqb y 0) eqn:Ey.
  - apply Rneqb_true in Ey.
    destruct (Rneqb x 0) eqn:Ex.
    + (* x <> 0, y <> 0 *)
      apply Rneqb_true in Ex. cbv beta iota zeta.
      pose proof (align_z x y z Ey Ex) as Haz. cbv zeta in Haz. rewrite Haz. cbn [vx vy vz].
      set (r := sqrt (x * x + y * y)) in *.
      assert (Hr : 0 < r) by (apply sqrt_lt_R0; nra).
      assert (Hx1 : sgn x * r <> 0).
      { pose proof (sgn_sq x Ex). intros H0. assert (sgn x = 0) by (apply Rmult_integral in H0; destruct H0; [auto|lra]). rewrite H1 in H. lra. }
      replace (Rneqb (sgn x * r) 0) with true by (symmetry; apply Rneqb_true; exact Hx1).
      cbv beta iota zeta.
      set (g := - x / Rabs x * asin (y / r)).
      set (b := - (sgn x * r) / Rabs (sgn x * r) * acos (z / sqrt (sgn x * r * (sgn x * r) + z * z))).
      apply by_alignment with (L := sqrt (sgn x * r * (sgn x * r) + z * z)).
      * apply sqrt_lt_R0. nra.
      * unfold g. rewrite Haz. pose proof (align_y (sgn x * r) z Hx1) as Hay. cbv zeta in Hay. exact Hay.
    + (* x = 0, y <> 0 *)
      apply Rneqb_false in Ex. subst x. cbv beta iota zeta. rewrite rotz_pi2. cbn [vx vy vz].
      assert (Hy1 : - y <> 0) by lra.
      replace (Rneqb (- y) 0) with true by (symmetry; apply Rneqb_true; exact Hy1).
      cbv beta iota zeta.
      apply by_alignment with (L := sqrt (- y * - y + z * z)).
      * apply sqrt_lt_R0. nra.
      * rewrite rotz_pi2. pose proof (align_y (- y) z Hy1) as Hay. cbv zeta in Hay. exact Hay.
  - apply Rneqb_false in Ey. subst y. cbv beta iota zeta. cbn [vx vy vz].
    destruct (Rneqb x 0) eqn:Ex.
    + (* y = 0, x <> 0 *)
      apply Rneqb_true in Ex. cbv beta iota zeta. cbn [vx vy vz].
      rewrite <- (rotz_0 v) at 1.
      apply by_alignment with (L := sqrt (x * x + z * z)).
      * apply sqrt_lt_R0. nra.
      * rewrite rotz_0. pose proof (align_y x z Ex) as Hay. cbv zeta in Hay. exact Hay.
    + (* x = y = 0, z > 0 *)
      apply Rneqb_false in Ex. subst x. cbv beta iota zeta. cbn [vx vy vz].
      assert (Hz : 0 < z) by (destruct Hax as [H|[H|H]]; [congruence|congruence|exact H]).
      rewrite <- (rotz_0 v) at 1. rewrite <- (roty_0 (rotz 0 v)) at 1.
      apply by_alignment with (L := z); [exact Hz|]. rewrite rotz_0, roty_0. reflexivity.
Qed.

(* the excluded family is really wrong: right-handed quarter turn about -z sends e_x to -e_y, the code gives +e_y *)
Lemma rotate_antiparallel_z_refuted :
  rotate (PI / 2) (mk 0 0 (-1)) (mk 1 0 0) = mk 0 1 0 /\ rodrigues (PI / 2) (mk 0 0 (-1)) (mk 1 0 0) = mk 0 (-1) 0.
Proof.
  split.
  - assert (H00 : Rneqb 0 0 = false) by (apply Rneqb_false; reflexivity).
    unfold rotate. cbn [vx vy vz]. rewrite H00. cbv beta iota zeta. cbn [vx vy vz]. rewrite H00. cbv beta iota zeta.
    rewrite neg0, roty_0, rotz_0. unfold rotz; simpl. rewrite cos_PI2, sin_PI2. f_equal; ring.
  - unfold rodrigues, add, scal, cross, dot; simpl. rewrite cos_PI2, sin_PI2. f_equal; ring.
Qed.
Print Assumptions rotate_is_rodrigues.
