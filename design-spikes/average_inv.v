(* Spike: the pKa = model + terms invariant survives averaging over the conformations that contain the group
   (C02 for the average, C08), over R.  Mirrors Group.clone / __iadd__ / add_determinant / __truediv__. *)
From Coq Require Import Reals Lra List Arith.
Import ListNotations.
Open Scope R_scope.

Definition det := (nat * R)%type.                       (* partner identity, value *)
Record grp := { model : R; vol : R; loc : R; pka : R; dets : list det }.
Definition dsum (l : list det) : R := fold_right (fun d acc => snd d + acc) 0 l.
Definition total (g : grp) : R := model g + vol g + loc g + dsum (dets g).
Definition Inv (g : grp) : Prop := pka g = total g.

(* add_determinant: add to the first determinant with an equal partner, else append a copy *)
Fixpoint add_det (d : det) (l : list det) : list det :=
  match l with
  | [] => [d]
  | e :: r => if Nat.eqb (fst e) (fst d) then (fst e, snd e + snd d) :: r else e :: add_det d r
  end.
Lemma dsum_add_det d l : dsum (add_det d l) = dsum l + snd d.
Proof. induction l as [|e r IH]; simpl; [lra|]. destruct (Nat.eqb (fst e) (fst d)); simpl; [lra| rewrite IH; lra]. Qed.

Definition clone (g : grp) : grp := {| model := model g; vol := 0; loc := 0; pka := 0; dets := [] |}.
Definition iadd (a b : grp) : grp :=
  {| model := model a; vol := vol a + vol b; loc := loc a + loc b; pka := pka a + pka b;
     dets := fold_left (fun l d => add_det d l) (dets b) (dets a) |}.
Definition gdiv (a : grp) (k : R) : grp :=
  {| model := model a; vol := vol a / k; loc := loc a / k; pka := pka a / k;
     dets := map (fun d => (fst d, snd d / k)) (dets a) |}.
Definition average (gs : list grp) (first : grp) : grp :=
  gdiv (fold_left iadd gs (clone first)) (INR (length gs)).

Lemma dsum_fold_add ds : forall l, dsum (fold_left (fun l d => add_det d l) ds l) = dsum l + dsum ds.
Proof. induction ds as [|d r IH]; intros l; simpl; [lra|]. rewrite IH, dsum_add_det. lra. Qed.
Lemma dsum_div l k : dsum (map (fun d => (fst d, snd d / k)) l) = dsum l / k.
Proof. induction l as [|d r IH]; simpl; [unfold Rdiv; lra|]. rewrite IH. unfold Rdiv. lra. Qed.

(* accumulated state: pka - (vol + loc + dsum) grows by the model pKa per summand *)
Lemma acc_inv m gs : Forall (fun g => Inv g /\ model g = m) gs -> forall a,
  pka (fold_left iadd gs a) - vol (fold_left iadd gs a) - loc (fold_left iadd gs a) - dsum (dets (fold_left iadd gs a))
  = pka a - vol a - loc a - dsum (dets a) + INR (length gs) * m.
Proof.
  induction 1 as [|g r [Hg Hm] Hr IH]; intros a; [simpl; lra|].
  cbn [fold_left length]. rewrite IH. rewrite S_INR. cbn [iadd pka vol loc dets]. rewrite dsum_fold_add.
  unfold Inv, total in Hg. rewrite Hg, Hm. lra.
Qed.
Lemma model_fold gs : forall a, model (fold_left iadd gs a) = model a.
Proof. induction gs; intros; simpl; auto. rewrite IHgs. reflexivity. Qed.

Theorem average_preserves_Inv m gs first :
  gs <> [] -> model first = m -> Forall (fun g => Inv g /\ model g = m) gs -> Inv (average gs first).
Proof.
  intros Hne Hfm Hall. unfold average, Inv, total. cbn [gdiv model vol loc pka dets]. rewrite dsum_div, model_fold. cbn [clone model].
  pose proof (acc_inv m gs Hall (clone first)) as H. cbn [clone pka vol loc dets dsum fold_right] in H.
  assert (Hk : INR (length gs) <> 0) by (apply not_0_INR; destruct gs; [congruence|discriminate]).
  set (k := INR (length gs)) in *. set (A := fold_left iadd gs (clone first)) in *.
  rewrite Hfm. apply Rmult_eq_reg_r with k; [|exact Hk].
  replace ((m + vol A / k + loc A / k + dsum (dets A) / k) * k) with (m * k + vol A + loc A + dsum (dets A)) by (field; exact Hk).
  replace (pka A / k * k) with (pka A) by (field; exact Hk). lra.
Qed.

(* the code as shipped divides by the number of conformations n >= length gs; if a conformation lacks the group the invariant fails *)
Lemma wrong_divisor_refuted : exists g, Inv g /\
  ~ Inv (gdiv (fold_left iadd [g] (clone g)) 2).
Proof.
  exists {| model := 4; vol := 0; loc := 0; pka := 4; dets := [] |}. split; [unfold Inv, total; simpl; lra|].
  unfold Inv, total; simpl. lra.
Qed.
