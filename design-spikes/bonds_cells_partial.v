(* Spike: cell-list bond search = all-pairs rule (C11 core). *)
From Coq Require Import List Bool ZArith Lia Permutation.
Import ListNotations.
Open Scope Z_scope.

Definition cellT := (Z * Z * Z)%type.
Definition cadd (c d : cellT) : cellT := let '(x,y,z) := c in let '(a,b,e) := d in (x+a, y+b, z+e).
Definition cneg (d : cellT) : cellT := let '(a,b,e) := d in (-a,-b,-e).
Definition ceqb (c d : cellT) : bool := let '(x,y,z) := c in let '(a,b,e) := d in (x =? a) && (y =? b) && (z =? e).

Lemma ceqb_eq c d : ceqb c d = true <-> c = d.
Proof. destruct c as [[x y] z], d as [[a b] e]; unfold ceqb. rewrite !andb_true_iff, !Z.eqb_eq. split; [intros [[? ?] ?]; congruence| intros H; inversion H; auto]. Qed.

(* the literal of bonds.py, as the table extractor would emit it *)
Definition offsets : list cellT :=
  [(-1,-1,-1); (-1,-1,0); (-1,-1,1); (-1,0,-1); (-1,0,0); (-1,0,1); (-1,1,-1); (-1,1,0); (-1,1,1);
   (0,-1,-1); (0,-1,0); (0,-1,1); (0,0,-1)].

Definition unit_range := [-1; 0; 1].
Definition all_dirs : list cellT :=
  flat_map (fun a => flat_map (fun b => map (fun c => (a,b,c)) unit_range) unit_range) unit_range.
Definition mem_cell (d : cellT) (l : list cellT) := existsb (ceqb d) l.

(* every non-zero direction is covered exactly once, up to sign *)
Lemma offsets_half_space :
  forallb (fun d => if ceqb d (0,0,0) then true else xorb (mem_cell d offsets) (mem_cell (cneg d) offsets)) all_dirs = true.
Proof. vm_compute. reflexivity. Qed.

Section Cells.
Variable atom : Type.
Variable cell : atom -> cellT.
Variable check : atom -> atom -> bool.      (* _find_bonds_for_atoms would bond this ordered pair *)
Hypothesis check_sym : forall a b, check a b = check b a.
Definition adjacent (c d : cellT) : Prop :=
  let '(x,y,z) := c in let '(a,b,e) := d in Z.abs (x-a) <= 1 /\ Z.abs (y-b) <= 1 /\ Z.abs (z-e) <= 1.
Hypothesis check_near : forall a b, check a b = true -> adjacent (cell a) (cell b).

(* atoms are identified by their index in the input list, like Python object identity *)
Definition iatom := (nat * atom)%type.
Fixpoint number (n : nat) (l : list atom) : list iatom :=
  match l with [] => [] | a :: r => (n, a) :: number (S n) r end.

(* boxes: association list cell -> atoms, insertion order (dict.setdefault(...).append) *)
Fixpoint box_add (c : cellT) (a : iatom) (bs : list (cellT * list iatom)) : list (cellT * list iatom) :=
  match bs with
  | [] => [(c, [a])]
  | (c', l) :: r => if ceqb c c' then (c', l ++ [a]) :: r else (c', l) :: box_add c a r
  end.
Definition boxes (l : list iatom) := fold_left (fun bs a => box_add (cell (snd a)) a bs) l [].
Fixpoint box_get (c : cellT) (bs : list (cellT * list iatom)) : option (list iatom) :=
  match bs with [] => None | (c', l) :: r => if ceqb c c' then Some l else box_get c r end.

Fixpoint pairs_within (l : list iatom) : list (iatom * iatom) :=
  match l with [] => [] | a :: r => map (fun b => (a, b)) r ++ pairs_within r end.
Definition pairs_between (l1 l2 : list iatom) : list (iatom * iatom) :=
  flat_map (fun a => map (fun b => (a, b)) l2) l1.

(* the pairs the cell-list loop hands to _find_bonds_for_atoms *)
Definition examined (bs : list (cellT * list iatom)) : list (iatom * iatom) :=
  flat_map (fun cb : cellT * list iatom =>
     let (c, v) := cb in
     pairs_within v ++
     flat_map (fun d => match box_get (cadd c d) bs with Some v2 => pairs_between v v2 | None => [] end) offsets) bs.

Definition bonded (p : iatom * iatom) : bool := check (snd (fst p)) (snd (snd p)).
Definition bonds_boxes (l : list atom) := filter bonded (examined (boxes (number 0 l))).
Definition bonds_spec (l : list atom) := filter bonded (pairs_within (number 0 l)).

(* unordered-pair membership by index *)
Definition upair_in (i j : nat) (ps : list (iatom * iatom)) : Prop :=
  exists a b, (In ((i,a),(j,b)) ps \/ In ((j,b),(i,a)) ps).

(* --- box lemmas --- *)
Lemma box_add_get_same c a bs : exists l, box_get c (box_add c a bs) = Some l /\ In a l /\
  (forall x, (match box_get c bs with Some l0 => In x l0 | None => False end) -> In x l).
Proof.
  induction bs as [|[c' l'] r IH]; simpl.
  - rewrite (proj2 (ceqb_eq c c) eq_refl). exists [a]. simpl; intuition.
  - destruct (ceqb c c') eqn:E; simpl; rewrite E.
    + exists (l' ++ [a]). split; [reflexivity|]. split; [apply in_or_app; right; simpl; auto|]. intros x Hx. apply in_or_app; auto.
    + exact IH.
Qed.
Lemma box_add_get_other c c2 a bs : ceqb c2 c = false -> box_get c2 (box_add c a bs) = box_get c2 bs.
Proof.
  intros Hne. induction bs as [|[c' l'] r IH]; simpl.
  - rewrite Hne. reflexivity.
  - destruct (ceqb c c') eqn:E; simpl.
    + apply ceqb_eq in E; subst c'. rewrite Hne. reflexivity.
    + destruct (ceqb c2 c'); auto.
Qed.

Lemma boxes_complete_aux : forall l bs0 x,
  (In x l \/ (match box_get (cell (snd x)) bs0 with Some l0 => In x l0 | None => False end)) ->
  exists lx, box_get (cell (snd x)) (fold_left (fun bs a => box_add (cell (snd a)) a bs) l bs0) = Some lx /\ In x lx.
Proof.
  induction l as [|a r IH]; intros bs0 x H; simpl.
  - destruct H as [[]|H]. destruct (box_get (cell (snd x)) bs0); [eauto|contradiction].
  - apply IH. destruct H as [[->|H]|H]; [right| left; exact H | right].
    + destruct (box_add_get_same (cell (snd x)) x bs0) as [l0 [-> [Hin _]]]. exact Hin.
    + destruct (ceqb (cell (snd x)) (cell (snd a))) eqn:E.
      * apply ceqb_eq in E. rewrite E in *. destruct (box_add_get_same (cell (snd a)) a bs0) as [l0 [-> [_ Hk]]]. apply Hk; exact H.
      * rewrite box_add_get_other by exact E. exact H.
Qed.
Lemma boxes_complete l x : In x l -> exists lx, box_get (cell (snd x)) (boxes l) = Some lx /\ In x lx.
Proof. intros; apply boxes_complete_aux; auto. Qed.
End Cells.
