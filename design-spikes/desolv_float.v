From Coq Require Import List PrimFloat Uint63 ZArith.
Import ListNotations.
Open Scope float_scope.
Record atomrec := mkA { ax : float; ay : float; az : float; avol : float; aresnum : Z; achain : Z }.
Definition fmax (a b : float) := if PrimFloat.ltb a b then b else a.   (* Python max: first maximal wins *)
Definition fmin (a b : float) := if PrimFloat.ltb b a then b else a.
Definition min4 := 0x1.c988p+5.   (* 2.75**4 = 57.19140625 *)
(* energy.radial_volume_desolvation, float instance, shipped parameters *)
Definition desolv (atoms : list atomrec) (gx gy gz : float) (rn ch : Z) (q : float) : float*float*float :=
  let '(volume, count) :=
    fold_left (fun (acc : float * float) a =>
      let '(volume, count) := acc in
      if andb (Z.eqb (aresnum a) rn) (Z.eqb (achain a) ch) then acc else
      let dx := ax a - gx in let dy := ay a - gy in let dz := az a - gz in
      let sq := dx*dx + dy*dy + dz*dz in
      let volume := if PrimFloat.ltb sq 400 then volume + avol a / fmax min4 (sq*sq) else volume in
      let count := if PrimFloat.ltb sq 225 then count + 1 else count in
      (volume, count)) atoms (0, 0) in
  let weight := fmax 0 (fmin 1 ((count - 280) / (560 - 280))) in
  let scale := 1 - (1 - 0.25) * (1 - weight) in
  let vaa := fmax 0 (volume - 0) in
  (q * (-13) * vaa * scale, weight, count).
