From Coq Require Import Reals Lra Nsatz Psatz.
Open Scope R_scope.

Record V3 := mk { vx : R; vy : R; vz : R }.
Definition rotz (t : R) (v : V3) : V3 :=
  mk (cos t * vx v - sin t * vy v) (sin t * vx v + cos t * vy v) (vz v).
Definition roty (t : R) (v : V3) : V3 :=
  mk (cos t * vx v + sin t * vz v) (vy v) (- sin t * vx v + cos t * vz v).
Definition cross a b := mk (vy a * vz b - vz a * vy b) (vz a * vx b - vx a * vz b) (vx a * vy b - vy a * vx b).
Definition dot a b := vx a * vx b + vy a * vy b + vz a * vz b.
Definition scal k a := mk (k * vx a) (k * vy a) (k * vz a).
Definition add a b := mk (vx a + vx b) (vy a + vy b) (vz a + vz b).
Definition norm a := sqrt (dot a a).
Definition rodrigues t k v := add (add (scal (cos t) v) (scal (sin t) (cross k v))) (scal (dot k v * (1 - cos t)) k).

Definition Rneqb (a b : R) : bool := if Req_EM_T a b then false else true.

(* shape the translator would produce from vector_algebra.rotate_vector_around_an_axis *)
Definition rotate (theta : R) (axis vec : V3) : V3 :=
  let gamma0 := 0 in
  let '(gamma, vec, axis) :=
    if Rneqb (vy axis) 0 then
      let gamma := if Rneqb (vx axis) 0
                   then - vx axis / Rabs (vx axis) * asin (vy axis / sqrt (vx axis * vx axis + vy axis * vy axis))
                   else PI / 2 in
      (gamma, rotz gamma vec, rotz gamma axis)
    else (gamma0, vec, axis) in
  let beta0 := 0 in
  let '(beta, vec, axis) :=
    if Rneqb (vx axis) 0 then
      let beta := - vx axis / Rabs (vx axis) * acos (vz axis / sqrt (vx axis * vx axis + vz axis * vz axis)) in
      (beta, roty beta vec, roty beta axis)
    else (beta0, vec, axis) in
  let vec := rotz theta vec in
  let vec := roty (- beta) vec in
  rotz (- gamma) vec.

Lemma conj_is_rodrigues : forall t b g v,
  rotz (-g) (roty (-b) (rotz t (roty b (rotz g v)))) =
  rodrigues t (rotz (-g) (roty (-b) (mk 0 0 1))) v.
Proof.
  intros. unfold rodrigues, rotz, roty, add, scal, cross, dot; simpl.
  rewrite !cos_neg, !sin_neg.
  pose proof (sin2_cos2 b) as Hb. pose proof (sin2_cos2 g) as Hg. unfold Rsqr in *.
  set (cb := cos b) in *. set (sb := sin b) in *. set (cg := cos g) in *. set (sg := sin g) in *.
  set (ct := cos t). set (st := sin t).
  f_equal; nsatz.
Qed.

Lemma rotz_0 v : rotz 0 v = v.
Proof. destruct v; unfold rotz; simpl. rewrite cos_0, sin_0. f_equal; ring. Qed.
Lemma roty_0 v : roty 0 v = v.
Proof. destruct v; unfold roty; simpl. rewrite cos_0, sin_0. f_equal; ring. Qed.

(* inverse rotations *)
Lemma rotz_inv g v : rotz (-g) (rotz g v) = v.
Proof. destruct v; unfold rotz; simpl. rewrite cos_neg, sin_neg. pose proof (sin2_cos2 g) as H; unfold Rsqr in H. f_equal; nsatz. Qed.
Lemma roty_inv g v : roty (-g) (roty g v) = v.
Proof. destruct v; unfold roty; simpl. rewrite cos_neg, sin_neg. pose proof (sin2_cos2 g) as H; unfold Rsqr in H. f_equal; nsatz. Qed.

(* key: the two alignment rotations send the axis to (0,0,|axis|) *)
Definition sgn x := x / Rabs x.

Lemma sgn_sq x : x <> 0 -> sgn x * sgn x = 1.
Proof. intros. unfold sgn. unfold Rabs. destruct (Rcase_abs x); field; lra. Qed.
Lemma sgn_abs x : x <> 0 -> sgn x * Rabs x = x.
Proof. intros. unfold sgn. field. apply Rabs_no_R0; auto. Qed.

Lemma cos_sgn_mul s a : s * s = 1 -> cos (- s * a) = cos a.
Proof. intros H. assert (s = 1 \/ s = -1) as [->| ->] by (assert ((s-1)*(s+1)=0) by nsatz; apply Rmult_integral in H0; destruct H0; [left|right]; lra).
  - replace (-(1) * a) with (- a) by ring. apply cos_neg.
  - replace (- -1 * a) with a by ring. reflexivity. Qed.
Lemma sin_sgn_mul s a : s * s = 1 -> sin (- s * a) = - s * sin a.
Proof. intros H. assert (s = 1 \/ s = -1) as [->| ->] by (assert ((s-1)*(s+1)=0) by nsatz; apply Rmult_integral in H0; destruct H0; [left|right]; lra).
  - replace (-(1) * a) with (- a) by ring. rewrite sin_neg. ring.
  - replace (- -1 * a) with a by ring. ring. Qed.

Lemma align_z x y z : y <> 0 -> x <> 0 ->
  let r := sqrt (x*x + y*y) in
  let gamma := - x / Rabs x * asin (y / r) in
  rotz gamma (mk x y z) = mk (sgn x * r) 0 z.
Proof.
  intros Hy Hx r gamma.
  assert (Hr2 : 0 < x*x + y*y) by nra.
  assert (Hr : 0 < r) by (apply sqrt_lt_R0; exact Hr2).
  assert (Hrr : r * r = x*x + y*y) by (apply sqrt_sqrt; lra).
  assert (Hb : -1 <= y / r <= 1).
  { assert (Hyr : y*y <= r*r) by nra.
    assert (Hlo : - r <= y) by nra. assert (Hhi : y <= r) by nra.
    split; apply Rmult_le_reg_r with r; try lra; unfold Rdiv; rewrite Rmult_assoc, Rinv_l by lra; lra. }
  unfold gamma. replace (- x / Rabs x) with (- sgn x) by (unfold sgn; field; apply Rabs_no_R0; auto).
  unfold rotz; simpl.
  rewrite cos_sgn_mul, sin_sgn_mul by (apply sgn_sq; auto).
  rewrite sin_asin by exact Hb. rewrite cos_asin by exact Hb.
  assert (Haa : Rabs x * Rabs x = x * x) by (unfold Rabs; destruct (Rcase_abs x); ring).
  assert (Hs : sqrt (1 - (y / r)²) = Rabs x / r).
  { replace (1 - (y/r)²) with ((Rabs x / r)²).
    - apply sqrt_Rsqr. apply Rmult_le_pos; [apply Rabs_pos| left; apply Rinv_0_lt_compat; lra].
    - unfold Rsqr. apply Rmult_eq_reg_r with (r * r); [|nra].
      replace (Rabs x / r * (Rabs x / r) * (r * r)) with (Rabs x * Rabs x) by (field; lra).
      replace ((1 - y / r * (y / r)) * (r * r)) with (r * r - y * y) by (field; lra).
      rewrite Haa, Hrr. ring. }
  rewrite Hs.
  pose proof (sgn_abs x Hx) as Hsa. pose proof (sgn_sq x Hx) as Hss.
  set (s := sgn x) in *. set (a := Rabs x) in *.
  assert (Hri : r <> 0) by lra. clear Hs Hb. clearbody s a. clear gamma. clearbody r.
  f_equal.
  - apply Rmult_eq_reg_r with r; [|exact Hri].
    replace ((a / r * x - - s * (y / r) * y) * r) with (a * x + s * y * y) by (field; exact Hri).
    nsatz.
  - apply Rmult_eq_reg_r with r; [|exact Hri].
    replace ((- s * (y / r) * x + a / r * y) * r) with (y * (a - s * x)) by (field; exact Hri).
    nsatz.
Qed.
