(* Spike: parsing propka.cfg inside Coq with a model of Parameters.parse_line (matrices only). *)
From Coq Require Import String Ascii List Bool ZArith.
Import ListNotations.
Open Scope string_scope.

Definition is_ws (c : ascii) := let n := nat_of_ascii c in (Nat.eqb n 32 || (Nat.leb 9 n && Nat.leb n 13))%bool.
Fixpoint cut_comment (s : string) : string :=
  match s with EmptyString => EmptyString | String c r => if Ascii.eqb c "#"%char then EmptyString else String c (cut_comment r) end.
(* str.split() *)
Fixpoint split_ws_aux (s : string) (cur : string) (acc : list string) : list string :=
  match s with
  | EmptyString => rev (if String.eqb cur "" then acc else cur :: acc)
  | String c r => if is_ws c then split_ws_aux r "" (if String.eqb cur "" then acc else cur :: acc)
                  else split_ws_aux r (cur ++ String c "") acc
  end.
Definition words (line : string) := split_ws_aux (cut_comment line) "" [].

(* association-list dictionaries; later insert wins on lookup (dict assignment) *)
Definition dict (V : Type) := list (string * V).
Fixpoint dget {V} (k : string) (d : dict V) : option V :=
  match d with [] => None | (k', v) :: r => if String.eqb k k' then Some v else dget k r end.
Definition dset {V} (k : string) (v : V) (d : dict V) : dict V := (k, v) :: d.

(* InteractionMatrix *)
Record imatrix := { ordered_keys : list string; imap : dict (dict string) }.
Definition im_get2 (m : dict (dict string)) a b := match dget a m with Some r => dget b r | None => None end.
Definition im_set2 (m : dict (dict string)) a b v := dset a (dset b v (match dget a m with Some r => r | None => [] end)) m.
Definition im_add (m : imatrix) (ws : list string) : option imatrix :=
  if negb (Nat.eqb (length ws) (length (ordered_keys m) + 2)) then None else
  match ws with
  | [] => None
  | new :: vals =>
    let keys := (ordered_keys m ++ [new])%list in
    let mp := fold_left (fun mp (kv : string * string) => let (g, v) := kv in im_set2 (im_set2 mp g new v) new g v)
                        (combine keys vals) (imap m) in
    Some {| ordered_keys := keys; imap := mp |}
  end.
Definition im_get (m : imatrix) a b := im_get2 (imap m) a b.

(* PairwiseMatrix over raw decimal tokens *)
Record pmatrix := { pdefault : string * string; pmap : dict (dict (string * string)) }.
Definition pm_add (m : pmatrix) (ws : list string) : option pmatrix :=
  match ws with
  | ["default"; a; b] => Some {| pdefault := (a, b); pmap := pmap m |}
  | [g1; g2; a; b] =>
    let ins mp x y := dset x (dset y (a, b) (match dget x mp with Some r => r | None => [] end)) mp in
    Some {| pdefault := pdefault m; pmap := ins (ins (pmap m) g1 g2) g2 g1 |}
  | _ => None
  end.
Definition pm_get (m : pmatrix) a b := match dget a (pmap m) with Some r => match dget b r with Some v => v | None => pdefault m end | None => pdefault m end.

Record params := { imx : imatrix; cut : pmatrix; nd : dict (dict string); sl : dict (list string) }.
Definition p0 := {| imx := {| ordered_keys := []; imap := [] |}; cut := {| pdefault := ("0.0","0.0"); pmap := [] |}; nd := []; sl := [] |}.
Definition number_dicts := ["VanDerWaalsVolume"; "charge"; "model_pkas"; "ions"; "valence_electrons"; "custom_model_pkas"].
Definition string_lists := ["ignore_residues"; "angular_dependent_sidechain_interactions"; "acid_list"; "base_list";
  "exclude_sidechain_interactions"; "backbone_reorganisation_list"; "write_out_order"].
Definition parse_line (p : option params) (line : string) : option params :=
  match p with None => None | Some p =>
  match words line with
  | [] => Some p
  | w0 :: rest =>
    if String.eqb w0 "interaction_matrix" then
      match im_add (imx p) rest with Some m => Some {| imx := m; cut := cut p; nd := nd p; sl := sl p |} | None => None end
    else if String.eqb w0 "sidechain_cutoffs" then
      match pm_add (cut p) rest with Some m => Some {| imx := imx p; cut := m; nd := nd p; sl := sl p |} | None => None end
    else if existsb (String.eqb w0) number_dicts then
      match rest with
      | [k; v] => Some {| imx := imx p; cut := cut p; sl := sl p;
                          nd := dset w0 (dset k v (match dget w0 (nd p) with Some r => r | None => [] end)) (nd p) |}
      | _ => None end
    else if existsb (String.eqb w0) string_lists then
      match rest with
      | [v] => Some {| imx := imx p; cut := cut p; nd := nd p;
                       sl := dset w0 ((match dget w0 (sl p) with Some r => r | None => [] end) ++ [v])%list (sl p) |}
      | _ => None end
    else Some p
  end end.
Definition parse_cfg (ls : list string) := fold_left parse_line ls (Some p0).
