From Coq Require Import Reals Lra.
From Coquelicot Require Import Coquelicot.
Open Scope R_scope.

Definition pow10 (x : R) := Rpower 10 x.
Definition log10 (x : R) := ln x / ln 10.

Definition charge (q pk ph : R) := q * (pow10 (q * (pk - ph)) / (1 + pow10 (q * (pk - ph)))).
Definition ddg_low (pk pkm ph : R) := -(136/100) * (log10 (1 + pow10 (ph - pk)) - log10 (1 + pow10 (ph - pkm))).

Lemma ddg_deriv_acid pk pkm ph :
  is_derive (fun ph => ddg_low pk pkm ph) ph ((136/100) * (charge (-1) pk ph - charge (-1) pkm ph)).
Proof.
  unfold ddg_low, charge, log10, pow10, Rpower.
  auto_derive.
  - repeat split; try (apply Rplus_lt_0_compat; [lra | apply exp_pos]); auto.
  - assert (H10 : ln 10 <> 0). { assert (0 < ln 10) by (rewrite <- ln_1; apply ln_increasing; lra). lra. }
    replace (-1 * (pk - ph) * ln 10) with ((ph + - pk) * ln 10) by ring.
    replace (-1 * (pkm - ph) * ln 10) with ((ph + - pkm) * ln 10) by ring.
    generalize (exp_pos ((ph + - pk) * ln 10)) (exp_pos ((ph + - pkm) * ln 10)).
    generalize (exp ((ph + - pk) * ln 10)) (exp ((ph + - pkm) * ln 10)). intros a b Ha Hb.
    field. repeat split; lra.
Qed.
(* base: charge +1: q*c/(1+c) with c = 10^(pk-ph) = 1 - theta *)
Lemma ddg_deriv_base pk pkm ph :
  is_derive (fun ph => ddg_low pk pkm ph) ph ((136/100) * (charge 1 pk ph - charge 1 pkm ph)).
Proof.
  unfold ddg_low, charge, log10, pow10, Rpower.
  auto_derive.
  - repeat split; try (apply Rplus_lt_0_compat; [lra | apply exp_pos]); auto.
  - assert (H10 : ln 10 <> 0). { assert (0 < ln 10) by (rewrite <- ln_1; apply ln_increasing; lra). lra. }
    replace (1 * (pk - ph) * ln 10) with (- ((ph + - pk) * ln 10)) by ring.
    replace (1 * (pkm - ph) * ln 10) with (- ((ph + - pkm) * ln 10)) by ring.
    rewrite !exp_Ropp.
    generalize (exp_pos ((ph + - pk) * ln 10)) (exp_pos ((ph + - pkm) * ln 10)).
    generalize (exp ((ph + - pk) * ln 10)) (exp ((ph + - pkm) * ln 10)). intros a b Ha Hb.
    field. repeat split; lra.
Qed.
Print Assumptions ddg_deriv_base.
