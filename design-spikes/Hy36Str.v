(* Spike: character-level model of hybrid36.decode; unit-test strings by vm_compute; round trip of the
   upper-case segment for every width (C19). *)
From Coq Require Import List ZArith Lia Ascii Bool.
Require Import Hy36.
Import ListNotations.
Open Scope Z_scope.

Definition str := list ascii.
Definition code (c : ascii) : Z := Z.of_nat (nat_of_ascii c).
Definition chr (z : Z) : ascii := ascii_of_nat (Z.to_nat z).
Lemma code_chr z : 0 <= z < 256 -> code (chr z) = z.
Proof. intros. unfold code, chr. rewrite nat_ascii_embedding by lia. lia. Qed.

Definition is_digit c := (48 <=? code c) && (code c <=? 57).
Definition is_upper c := (65 <=? code c) && (code c <=? 90).
Definition is_lower c := (97 <=? code c) && (code c <=? 122).
Definition is_space c := ((9 <=? code c) && (code c <=? 13)) || ((28 <=? code c) && (code c <=? 32)).

(* str.strip() *)
Fixpoint lstrip (s : str) : str := match s with c :: r => if is_space c then lstrip r else s | [] => [] end.
Fixpoint rstrip (s : str) : str :=
  match s with [] => [] | c :: r => match rstrip r with [] => if is_space c then [] else [c] | r' => c :: r' end end.
Definition strip (s : str) : str := rstrip (lstrip s).

(* int(s) on a string that starts with a digit: digits with single inner underscores *)
Fixpoint int10 (s : str) (acc : Z) (prev_us : bool) : option Z :=
  match s with
  | [] => if prev_us then None else Some acc
  | c :: r => if is_digit c then int10 r (acc * 10 + (code c - 48)) false
              else if (code c =? 95) && negb prev_us then int10 r acc true else None
  end.
Definition val36 (c : ascii) : Z := if is_digit c then code c - 48 else if is_upper c then code c - 55 else code c - 87.
Definition int36 (s : str) : Z := fold_left (fun acc c => acc * 36 + val36 c) s 0.

Inductive result := Ok (z : Z) | ValueError.
Definition decode (s0 : str) : result :=
  let s := strip s0 in
  let '(sign, s) := match s with c :: r => if code c =? 45 then (-1, r) else (1, s) | [] => (1, s) end in
  match s with
  | [] => ValueError
  | c :: tl =>
    let n := Z.of_nat (length s) in
    if is_digit c then match int10 s 0 false with Some v => Ok (sign * v) | None => ValueError end
    else if is_upper c then
      if forallb (fun d => is_upper d || is_digit d) tl then Ok (sign * (int36 s + - (10 * 36 ^ (n - 1) - 10 ^ n))) else ValueError
    else if is_lower c then
      if forallb (fun d => is_lower d || is_digit d) tl then Ok (sign * (int36 s + (16 * 36 ^ (n - 1) + 10 ^ n))) else ValueError
    else ValueError
  end.

(* the unit-test vectors of tests/test_hybrid36.py, evaluated on the model *)
From Coq Require Import String.
Definition S (s : string) : str := list_ascii_of_string s.
Example unit_tests :
  map (fun s => decode (S s)) ["99999"; "A0000"; "0"; "A"; "  ZZZZY"; "ZZZZZ"; "a0000"; "zzzzz"; "-A0000"; "-zzzzy"; "PROPKA"; "A001Z"; "B0000"]%string
  = map Ok [99999; 100000; 0; 10; 43770014; 43770015; 43770016; 87440031; -100000; -87440030; 954495146; 100071; 1779616]
  /\ map (fun s => decode (S s)) ["99X99"; "X9-99"; "XYZa"; ""; "-"; "!NotOk"]%string = repeat ValueError 6
  /\ decode (S "1_0") = Ok 10.      (* the finding F6, visible in the model *)
Proof. vm_compute. repeat split. Qed.

(* ---- round trip of the upper-case segment ---- *)
Definition up_char (d : Z) : ascii := if d <? 10 then chr (d + 48) else chr (d + 55).
Definition spaces (k : nat) : str := repeat " "%char k.

Lemma lstrip_spaces k s : lstrip (spaces k ++ s) = lstrip s.
Proof. unfold spaces. induction k; simpl; auto. Qed.
Lemma rstrip_spaces k : rstrip (spaces k) = [].
Proof. unfold spaces. induction k; simpl; auto. rewrite IHk. reflexivity. Qed.
Lemma rstrip_app_spaces s k : rstrip (s ++ spaces k) = rstrip s.
Proof. induction s as [|c r IH]; simpl; [apply rstrip_spaces|]. rewrite IH. reflexivity. Qed.
Lemma rstrip_nonspace s : forallb (fun c => negb (is_space c)) s = true -> rstrip s = s.
Proof.
  induction s as [|c r IH]; simpl; auto. intros H. apply andb_true_iff in H as [Hc Hr]. rewrite IH by exact Hr.
  apply negb_true_iff in Hc. rewrite Hc. destruct r; reflexivity.
Qed.
Lemma strip_padded k1 k2 c r : forallb (fun c => negb (is_space c)) (c :: r) = true ->
  strip (spaces k1 ++ (c :: r) ++ spaces k2) = c :: r.
Proof.
  intros H. unfold strip. rewrite lstrip_spaces.
  assert (Hc : is_space c = false) by (simpl in H; apply andb_true_iff in H as [Hc _]; apply negb_true_iff in Hc; exact Hc).
  simpl app. simpl lstrip. rewrite Hc. change (c :: r ++ spaces k2) with ((c :: r) ++ spaces k2).
  rewrite rstrip_app_spaces. apply rstrip_nonspace. exact H.
Qed.

Lemma up_char_props d : 0 <= d < 36 ->
  val36 (up_char d) = d /\ (is_upper (up_char d) || is_digit (up_char d)) = true /\ is_space (up_char d) = false /\
  (10 <= d -> is_upper (up_char d) = true /\ is_digit (up_char d) = false /\ (code (up_char d) =? 45) = false).
Proof.
  intros Hd. unfold up_char, val36, is_upper, is_digit, is_space.
  destruct (d <? 10) eqn:E; [apply Z.ltb_lt in E | apply Z.ltb_ge in E]; rewrite code_chr by lia;
  repeat match goal with |- context [?a <=? ?b] => let H := fresh in destruct (Z.leb_spec a b) as [H|H]; try lia end;
  repeat match goal with |- context [?a =? ?b] => let H := fresh in destruct (Z.eqb_spec a b) as [H|H]; try lia end;
  simpl; repeat split; try lia; intros; try lia; repeat split; auto.
Qed.

Lemma int36_up ds : Forall (fun d => 0 <= d < 36) ds -> forall acc,
  fold_left (fun acc c => acc * 36 + val36 c) (map up_char ds) acc = fold_left (fun acc d => acc * 36 + d) ds acc.
Proof.
  induction 1 as [|d r Hd Hr IH]; intros acc; simpl; auto. rewrite (proj1 (up_char_props d Hd)). apply IH.
Qed.

Theorem decode_encode_upper w' k1 k2 n :
  P10 (Datatypes.S w') <= n < P10 (Datatypes.S w') + 26 * P36 w' ->
  decode (spaces k1 ++ map up_char (digits 36 (Datatypes.S w') (n - P10 (Datatypes.S w') + 10 * P36 w')) ++ spaces k2) = Ok n.
Proof.
  intros Hn. set (v := n - P10 (Datatypes.S w') + 10 * P36 w').
  assert (H36 : 1 < 36) by lia.
  assert (Hp : 0 < P36 w') by (apply Z.pow_pos_nonneg; lia).
  assert (Hv : 10 * P36 w' <= v < 36 * P36 w') by (unfold v; lia).
  assert (Hv' : 0 <= v < 36 ^ Z.of_nat (Datatypes.S w')) by (rewrite Nat2Z.inj_succ, Z.pow_succ_r by lia; unfold P36 in *; lia).
  pose proof (digits_range 36 H36 (Datatypes.S w') v Hv') as Hrange.
  pose proof (horner_digits 36 H36 (Datatypes.S w') v Hv') as Hh.
  pose proof (digits_length 36 (Datatypes.S w') v) as Hlen.
  cbn [digits] in *. set (d0 := v / 36 ^ Z.of_nat w') in *. set (rest := digits 36 w' (v mod 36 ^ Z.of_nat w')) in *.
  assert (Hd0 : 10 <= d0 < 36) by (apply (leading_digit 36 H36 w' v 10 36); [lia| exact Hv]).
  inversion Hrange as [|? ? Hd0r Hrest]; subst.
  assert (Hnsp : forallb (fun c => negb (is_space c)) (map up_char (d0 :: rest)) = true).
  { apply forallb_forall. intros c Hc. apply in_map_iff in Hc as [d [<- Hd]].
    rewrite Forall_forall in Hrange. rewrite (proj1 (proj2 (proj2 (up_char_props d (Hrange d Hd))))). reflexivity. }
  cbn [map] in *. unfold decode. rewrite strip_padded by exact Hnsp.
  destruct (up_char_props d0 Hd0r) as (Hval & _ & _ & Hup). destruct (Hup (proj1 Hd0)) as (Hu & Hdg & Hminus).
  rewrite Hminus, Hdg, Hu.
  replace (forallb (fun d => is_upper d || is_digit d) (map up_char rest)) with true.
  2:{ symmetry. apply forallb_forall. intros c Hc. apply in_map_iff in Hc as [d [<- Hd]].
      rewrite Forall_forall in Hrest. apply (proj1 (proj2 (up_char_props d (Hrest d Hd)))). }
  f_equal. unfold int36. change (up_char d0 :: map up_char rest) with (map up_char (d0 :: rest)).
  rewrite int36_up by exact Hrange. fold (horner 36 (d0 :: rest)). rewrite Hh.
  rewrite map_length. simpl length in Hlen. simpl length. rewrite Hlen.
  replace (Z.of_nat (Datatypes.S w') - 1) with (Z.of_nat w') by lia.
  unfold v, P10, P36. lia.
Qed.
Print Assumptions decode_encode_upper.
