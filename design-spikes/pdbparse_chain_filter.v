(* Spike: model of propka.input.get_atom_lines_from_pdb and the C13 theorem. *)
From Coq Require Import String Ascii List Bool ZArith Lia.
Import ListNotations.
Open Scope string_scope.

(* Python slice s[a:b] with clipping *)
Definition slice (a b : nat) (s : string) : string := substring a (b - a) s.
(* Python s[i] : None = IndexError *)
Definition idx (i : nat) (s : string) : option ascii := get i s.

Inductive err := IndexError | ValueError.
Inductive result (A : Type) := Ok (a : A) | Err (e : err).
Arguments Ok {A}. Arguments Err {A}.

Section Parse.
Variable atom : Type.
Variable mk_atom : string -> result atom.          (* Atom(line=line) *)
Variable is_hydrogen : atom -> bool.               (* atom.element == 'H' *)
Variable parse_model : string -> result Z.         (* int(line[6:]) *)
Variable ignore_residues : list string.
Variable keep_protons : bool.

Inductive nterm := Next | Res (r : string).
Record st := { model : Z; nt : nterm; oldres : option string }.

Definition str_eqb := String.eqb.
Definition is_atom_tag (tag : string) := str_eqb tag "ATOM  " || str_eqb tag "HETATM".
Fixpoint mem_str (s : string) (l : list string) := match l with [] => false | x :: r => str_eqb s x || mem_str s r end.
Fixpoint mem_chr (c : ascii) (l : list ascii) := match l with [] => false | x :: r => Ascii.eqb c x || mem_chr c r end.
Definition strip (s : string) : string := s. (* placeholder; irrelevant for this theorem *)

Definition nterm_eqb (n : nterm) (r : string) := match n with Next => false | Res x => str_eqb x r end.
Definition opt_neqb (o : option string) (r : string) := match o with None => true | Some x => negb (str_eqb x r) end.

Record out := { conf_model : Z; conf_alt : ascii; the_atom : atom; terminal : option string }.

Definition conv_alt (c : ascii) : ascii :=
  let n := nat_of_ascii c in
  if (49 <=? n)%nat && (n <=? 57)%nat then ascii_of_nat (n + 16)
  else if Ascii.eqb c " "%char then "A"%char else c.

(* one line; chains = [] means "no -c option" *)
Definition step (chains : list ascii) (s : st) (line : string) : result (st * list out) :=
  let tag := slice 0 6 line in
  match (if str_eqb tag "MODEL " then
           match parse_model (slice 6 (String.length line) line) with
           | Ok m => Ok {| model := m; nt := Next; oldres := oldres s |}
           | Err e => Err e end
         else Ok s) with
  | Err e => Err e
  | Ok s =>
  let s := if str_eqb tag "TER   " then {| model := model s; nt := Next; oldres := oldres s |} else s in
  if negb (is_atom_tag tag) then Ok (s, [])
  else
    match idx 16 line with
    | None => Err IndexError
    | Some alt =>
      let name := slice 12 16 line in
      let resnum := slice 22 26 line in
      if mem_str (slice 17 20 line) ignore_residues then Ok (s, [])
      else
        match (match chains with
               | [] => Ok true
               | _ => match idx 21 line with None => Err IndexError | Some c => Ok (mem_chr c chains) end
               end) with
        | Err e => Err e
        | Ok false => Ok (s, [])
        | Ok true =>
          let s :=
            match nt s with
            | Next => if str_eqb tag "ATOM  " && opt_neqb (oldres s) resnum
                      then {| model := model s; nt := Res resnum; oldres := None |} else s
            | _ => s end in
          let alt := conv_alt alt in
          let term1 := if str_eqb tag "ATOM  " && str_eqb (strip name) "N" && nterm_eqb (nt s) resnum
                       then Some "N+" else None in
          let is_oxt := str_eqb tag "ATOM  " && (str_eqb (strip name) "OXT" || str_eqb (strip name) "O''") in
          let term := if is_oxt then Some "C-" else term1 in
          let s := if is_oxt then {| model := model s; nt := Next; oldres := Some resnum |} else s in
          match mk_atom line with
          | Err e => Err e
          | Ok a =>
            let o := {| conf_model := model s; conf_alt := alt; the_atom := a; terminal := term |} in
            if is_hydrogen a && negb keep_protons then Ok (s, []) else Ok (s, [o])
          end
        end
    end
  end.

Fixpoint run (chains : list ascii) (s : st) (ls : list string) : result (list out) :=
  match ls with
  | [] => Ok []
  | l :: r =>
    match step chains s l with
    | Err e => Err e
    | Ok (s', o) => match run chains s' r with Err e => Err e | Ok os => Ok (o ++ os)%list end
    end
  end.

Definition keeps (chains : list ascii) (l : string) : bool :=
  negb (is_atom_tag (slice 0 6 l)) ||
  mem_str (slice 17 20 l) ignore_residues ||      (* ignored lines are inert either way; keep them *)
  match idx 21 l with None => true | Some c => mem_chr c chains end.

(* well-formedness: atom records are at least 22 columns wide *)
Definition wf_line (l : string) : bool :=
  negb (is_atom_tag (slice 0 6 l)) || (22 <=? String.length l)%nat.

Lemma idx_some_of_len : forall n s, (n < String.length s)%nat -> exists c, idx n s = Some c.
Proof.
  unfold idx. induction n; destruct s; simpl; intros; try lia; eauto.
  apply IHn. lia.
Qed.

(* a dropped line is a no-op for the selected run *)
Lemma dropped_noop : forall chains s l, chains <> [] -> wf_line l = true ->
  keeps chains l = false -> step chains s l = Ok (s, []).
Proof.
  intros chains s l Hc Hwf Hk. unfold keeps in Hk.
  apply orb_false_iff in Hk as [Hk Hk3]. apply orb_false_iff in Hk as [Hk1 Hk2].
  apply negb_false_iff in Hk1.
  unfold wf_line in Hwf. rewrite Hk1 in Hwf. cbn [negb orb] in Hwf. apply Nat.leb_le in Hwf.
  unfold step.
  assert (Htag : str_eqb (slice 0 6 l) "MODEL " = false).
  { unfold is_atom_tag in Hk1. apply orb_true_iff in Hk1 as [H|H]; apply String.eqb_eq in H; rewrite H; reflexivity. }
  assert (Hter : str_eqb (slice 0 6 l) "TER   " = false).
  { unfold is_atom_tag in Hk1. apply orb_true_iff in Hk1 as [H|H]; apply String.eqb_eq in H; rewrite H; reflexivity. }
  rewrite Htag, Hter, Hk1. simpl negb. cbv iota.
  destruct (idx_some_of_len 16 l) as [c16 H16]; [lia|]. rewrite H16.
  rewrite Hk2.
  destruct (idx 21 l) as [c21|] eqn:H21; [|destruct (idx_some_of_len 21 l) as [? ?]; [lia|congruence]].
  destruct chains as [|c0 cs]; [congruence|]. rewrite Hk3. reflexivity.
Qed.

(* a kept line behaves identically with and without the option *)
Lemma kept_same : forall chains s l, chains <> [] -> wf_line l = true ->
  keeps chains l = true -> step chains s l = step [] s l.
Proof.
  intros chains s l Hc Hwf Hk. unfold step.
  destruct (if str_eqb (slice 0 6 l) "MODEL " then _ else _) as [s1|e]; [|reflexivity].
  destruct (negb (is_atom_tag (slice 0 6 l))) eqn:Hat; [reflexivity|].
  apply negb_false_iff in Hat.
  destruct (idx 16 l) as [c16|]; [|reflexivity].
  destruct (mem_str (slice 17 20 l) ignore_residues) eqn:Hig; [reflexivity|].
  unfold keeps in Hk. rewrite Hat, Hig in Hk. simpl in Hk.
  destruct chains as [|c0 cs]; [congruence|].
  unfold wf_line in Hwf. rewrite Hat in Hwf. cbn [negb orb] in Hwf. apply Nat.leb_le in Hwf.
  destruct (idx_some_of_len 21 l) as [c21 H21]; [lia|]. rewrite H21 in *. rewrite Hk. reflexivity.
Qed.

Theorem parse_chain_filter_is_deletion : forall chains ls s,
  chains <> [] -> forallb wf_line ls = true ->
  run chains s ls = run [] s (filter (keeps chains) ls).
Proof.
  intros chains ls; induction ls as [|l r IH]; intros s Hc Hwf; [reflexivity|].
  simpl in Hwf. apply andb_true_iff in Hwf as [Hl Hr].
  simpl. destruct (keeps chains l) eqn:Hk.
  - simpl. rewrite (kept_same chains s l Hc Hl Hk).
    destruct (step [] s l) as [[s' o]|e]; [|reflexivity]. rewrite IH by assumption. reflexivity.
  - rewrite (dropped_noop chains s l Hc Hl Hk). rewrite IH by assumption.
    destruct (run [] s (filter (keeps chains) r)); reflexivity.
Qed.
End Parse.
Print Assumptions parse_chain_filter_is_deletion.
