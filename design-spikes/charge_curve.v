(* Spike: Henderson-Hasselbalch facts of Group.calculate_charge over R (C09). *)
From Coq Require Import Reals Lra.
Open Scope R_scope.

Definition pow10 (x : R) := Rpower 10 x.
(* shape of group.py: conc_ratio = 10**(q*(pk-ph)); charge = q*(conc_ratio/(1+conc_ratio)) *)
Definition charge (q pk ph : R) := q * (pow10 (q * (pk - ph)) / (1 + pow10 (q * (pk - ph)))).

Lemma pow10_pos x : 0 < pow10 x. Proof. apply exp_pos. Qed.
Lemma ln10_pos : 0 < ln 10. Proof. rewrite <- ln_1. apply ln_increasing; lra. Qed.
Lemma pow10_mono x y : x <= y -> pow10 x <= pow10 y.
Proof. intros H. destruct H as [H|H]; [left|right; rewrite H; reflexivity]. unfold pow10, Rpower. apply exp_increasing. pose proof ln10_pos. nra. Qed.
Lemma pow10_0 : pow10 0 = 1. Proof. unfold pow10. apply Rpower_O. lra. Qed.

Definition frac c := c / (1 + c).
Lemma frac_bounds c : 0 < c -> 0 < frac c < 1.
Proof. intros. unfold frac. split.
  - apply Rdiv_lt_0_compat; lra.
  - apply Rmult_lt_reg_r with (1 + c); [lra|]. unfold Rdiv. rewrite Rmult_assoc, Rinv_l by lra. lra. Qed.
Lemma frac_mono c d : 0 < c -> c <= d -> frac c <= frac d.
Proof. intros Hc Hd. unfold frac.
  apply Rmult_le_reg_r with ((1 + c) * (1 + d)); [nra|].
  replace (c / (1 + c) * ((1 + c) * (1 + d))) with (c * (1 + d)) by (field; lra).
  replace (d / (1 + d) * ((1 + c) * (1 + d))) with (d * (1 + c)) by (field; lra). nra. Qed.

Theorem charge_between q pk ph : 0 <= charge q pk ph / q <= 1 \/ q = 0.
Proof.
  destruct (Req_dec q 0) as [->|Hq]; [right; reflexivity|left].
  unfold charge. replace (q * _ / q) with (frac (pow10 (q * (pk - ph)))) by (unfold frac; field; split; [pose proof (pow10_pos (q*(pk-ph))); lra|exact Hq]).
  pose proof (frac_bounds _ (pow10_pos (q * (pk - ph)))). lra.
Qed.

Theorem charge_half q pk : charge q pk pk = q / 2.
Proof. unfold charge. replace (q * (pk - pk)) with 0 by ring. rewrite pow10_0. field. Qed.

Theorem charge_antitone q pk ph1 ph2 : ph1 <= ph2 -> charge q pk ph2 <= charge q pk ph1.
Proof.
  intros H. unfold charge. fold (frac (pow10 (q * (pk - ph2)))). fold (frac (pow10 (q * (pk - ph1)))).
  destruct (Rle_dec 0 q) as [Hq|Hq].
  - apply Rmult_le_compat_l; [exact Hq|]. apply frac_mono; [apply pow10_pos|]. apply pow10_mono. nra.
  - assert (frac (pow10 (q * (pk - ph1))) <= frac (pow10 (q * (pk - ph2)))).
    { apply frac_mono; [apply pow10_pos|]. apply pow10_mono. nra. }
    nra.
Qed.
Print Assumptions charge_antitone.
