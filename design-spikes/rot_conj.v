From Coq Require Import Reals Lra Nsatz Psatz.
Open Scope R_scope.

Record V3 := mk { vx : R; vy : R; vz : R }.
Definition rotz (t : R) (v : V3) : V3 :=
  mk (cos t * vx v - sin t * vy v) (sin t * vx v + cos t * vy v) (vz v).
Definition roty (t : R) (v : V3) : V3 :=
  mk (cos t * vx v + sin t * vz v) (vy v) (- sin t * vx v + cos t * vz v).
Definition cross a b := mk (vy a * vz b - vz a * vy b) (vz a * vx b - vx a * vz b) (vx a * vy b - vy a * vx b).
Definition dot a b := vx a * vx b + vy a * vy b + vz a * vz b.
Definition scal k a := mk (k * vx a) (k * vy a) (k * vz a).
Definition add a b := mk (vx a + vx b) (vy a + vy b) (vz a + vz b).
(* Rodrigues for unit axis k *)
Definition rodrigues t k v := add (add (scal (cos t) v) (scal (sin t) (cross k v))) (scal (dot k v * (1 - cos t)) k).

(* abstract: M = Ry(b) Rz(g); result = Rz(-g) Ry(-b) Rz(t) Ry(b) Rz(g) v; k = Rz(-g) Ry(-b) ez *)
Lemma conj_is_rodrigues : forall t b g v,
  rotz (-g) (roty (-b) (rotz t (roty b (rotz g v)))) =
  rodrigues t (rotz (-g) (roty (-b) (mk 0 0 1))) v.
Proof.
  intros. unfold rodrigues, rotz, roty, add, scal, cross, dot; simpl.
  rewrite !cos_neg, !sin_neg.
  pose proof (sin2_cos2 b) as Hb. pose proof (sin2_cos2 g) as Hg. unfold Rsqr in *.
  set (cb := cos b) in *. set (sb := sin b) in *. set (cg := cos g) in *. set (sg := sin g) in *.
  set (ct := cos t). set (st := sin t).
  f_equal; nsatz.
Qed.
