From Coq Require Import Reals Lra ZArith PrimFloat Uint63 List.
Import ListNotations.

Class Num (F : Type) := {
  nadd : F -> F -> F; nsub : F -> F -> F; nmul : F -> F -> F; ndiv : F -> F -> F;
  nabs : F -> F; nltb : F -> F -> bool; nleb : F -> F -> bool;
  nlit : Z -> Z -> F  (* numerator, denominator *)
}.

Section Gen.
Context {F : Type} `{Num F}.
(* as the translator would emit it from energy.py:hydrogen_bond_energy *)
Definition hydrogen_bond_energy (dist dpka_max c0 c1 f_angle : F) : F :=
  let value :=
    if nltb dist c0 then nlit 1 1
    else if nltb c1 dist then nlit 0 1
    else nsub (nlit 1 1) (ndiv (nsub dist c0) (nsub c1 c0)) in
  nabs (nmul (nmul dpka_max value) f_angle).
End Gen.

(* real instance *)
Definition Rltb (a b : R) : bool := if Rlt_dec a b then true else false.
Definition Rleb (a b : R) : bool := if Rle_dec a b then true else false.
#[export] Instance NumR : Num R := {| nadd := Rplus; nsub := Rminus; nmul := Rmult; ndiv := Rdiv; nabs := Rabs;
  nltb := Rltb; nleb := Rleb; nlit := fun n d => (IZR n / IZR d)%R |}.
(* float instance *)
#[export] Instance NumF : Num float := {| nadd := PrimFloat.add; nsub := PrimFloat.sub; nmul := PrimFloat.mul; ndiv := PrimFloat.div;
  nabs := PrimFloat.abs; nltb := PrimFloat.ltb; nleb := PrimFloat.leb;
  nlit := fun n d => PrimFloat.div (PrimFloat.of_uint63 (Uint63.of_Z n)) (PrimFloat.of_uint63 (Uint63.of_Z d)) |}.

Open Scope R_scope.
Lemma hb_bound (dist dmax c0 c1 fa : R) :
  c0 < c1 -> Rabs fa <= 1 -> 0 <= hydrogen_bond_energy dist dmax c0 c1 fa <= Rabs dmax.
Proof.
  intros Hc Hf. unfold hydrogen_bond_energy; cbn [nltb nabs nmul nsub ndiv nlit NumR].
  unfold Rltb. split; [apply Rabs_pos|].
  rewrite !Rabs_mult.
  assert (Hv : forall v, 0 <= v <= 1 -> Rabs dmax * Rabs v * Rabs fa <= Rabs dmax).
  { intros v Hv. rewrite (Rabs_pos_eq v) by lra. pose proof (Rabs_pos dmax) as Hd. pose proof (Rabs_pos fa) as Hfa.
    assert (Rabs dmax * v <= Rabs dmax) by nra.
    assert (0 <= Rabs dmax * v) by nra.
    replace (Rabs dmax) with (Rabs dmax * 1) at 2 by ring.
    apply Rle_trans with (Rabs dmax * v * 1); [apply Rmult_le_compat_l; lra | nra]. }
  destruct (Rlt_dec dist c0); [apply Hv; lra|].
  destruct (Rlt_dec c1 dist); [apply Hv; lra|].
  apply Hv. assert (0 <= (dist - c0) / (c1 - c0) <= 1).
  { split. apply Rmult_le_pos; [lra| left; apply Rinv_0_lt_compat; lra].
    apply Rmult_le_reg_r with (c1 - c0); [lra|]. unfold Rdiv. rewrite Rmult_assoc, Rinv_l by lra. lra. }
  lra.
Qed.
Eval vm_compute in (hydrogen_bond_energy 2.3%float 0.85%float 2.0%float 3.0%float 0.9%float).
