From Coq Require Import ZArith.
Class Num (F : Type) := {
  nadd : F -> F -> F; nsub : F -> F -> F; nmul : F -> F -> F; ndiv : F -> F -> F;
  nabs : F -> F; nneg : F -> F; nsqrt : F -> F;
  nltb : F -> F -> bool; nleb : F -> F -> bool; neqb : F -> F -> bool;
  nlit : Z -> Z -> F;
  npow10 : F -> F; nlog10 : F -> F; nsin : F -> F; ncos : F -> F; nasin : F -> F; nacos : F -> F; npi : F }.
