"""Throw-away spike: fail-closed Python-ast -> Gallina for numeric kernels over a `Num F` class.
Validates DESIGN.md section 2.2 (G).  Not the framework."""
import ast, sys, textwrap, fractions

class Untranslatable(Exception): pass

BIN = {ast.Add:'nadd', ast.Sub:'nsub', ast.Mult:'nmul', ast.Div:'ndiv'}
CMP = {ast.Lt:lambda a,b:f'(nltb {a} {b})', ast.Gt:lambda a,b:f'(nltb {b} {a})',
       ast.LtE:lambda a,b:f'(nleb {a} {b})', ast.GtE:lambda a,b:f'(nleb {b} {a})',
       ast.Eq:lambda a,b:f'(neqb {a} {b})', ast.NotEq:lambda a,b:f'(negb (neqb {a} {b}))'}
MATH1 = {'sqrt':'nsqrt','sin':'nsin','cos':'ncos','asin':'nasin','acos':'nacos','log10':'nlog10'}

def lit(v):
    fr = fractions.Fraction(str(v)) if isinstance(v,float) else fractions.Fraction(v)
    return f'(nlit ({fr.numerator}) ({fr.denominator}))'

class Fn:
    def __init__(self, fdef, consts, attr_ok):
        self.f=fdef; self.consts=consts; self.attr_ok=attr_ok
    def expr(self, e):
        if isinstance(e, ast.Constant) and isinstance(e.value,(int,float)) and not isinstance(e.value,bool):
            return lit(e.value)
        if isinstance(e, ast.Name):
            if e.id in self.consts: return self.expr(self.consts[e.id])
            return e.id
        if isinstance(e, ast.Attribute):
            if isinstance(e.value, ast.Name) and e.value.id=='math' and e.attr=='pi': return 'npi'
            if isinstance(e.value, ast.Name) and (e.value.id, e.attr) in self.attr_ok:
                return f'({e.value.id}_{e.attr})'   # record fields become extra arguments
            raise Untranslatable(ast.dump(e))
        if isinstance(e, ast.UnaryOp) and isinstance(e.op, ast.USub): return f'(nneg {self.expr(e.operand)})'
        if isinstance(e, ast.BinOp):
            if isinstance(e.op, ast.Pow) and isinstance(e.left, ast.Constant) and e.left.value==10:
                return f'(npow10 {self.expr(e.right)})'
            if type(e.op) in BIN: return f'({BIN[type(e.op)]} {self.expr(e.left)} {self.expr(e.right)})'
            raise Untranslatable(ast.dump(e))
        if isinstance(e, ast.Compare) and len(e.ops)==1 and type(e.ops[0]) in CMP:
            return CMP[type(e.ops[0])](self.expr(e.left), self.expr(e.comparators[0]))
        if isinstance(e, ast.BoolOp):
            op='andb' if isinstance(e.op, ast.And) else 'orb'
            r=self.expr(e.values[0])
            for v in e.values[1:]: r=f'({op} {r} {self.expr(v)})'
            return r
        if isinstance(e, ast.Subscript) and isinstance(e.value, ast.Name) and isinstance(e.slice, ast.Constant):
            return f'{e.value.id}_{e.slice.value}'     # cutoffs[0] -> cutoffs_0 (argument is split)
        if isinstance(e, ast.Call):
            f=e.func
            if isinstance(f, ast.Name) and f.id=='abs' and len(e.args)==1: return f'(nabs {self.expr(e.args[0])})'
            if isinstance(f, ast.Name) and f.id in ('max','min') and len(e.args)==2:
                a,b=map(self.expr,e.args)   # Python: first extremal element wins
                return f'(if nltb {a} {b} then {b} else {a})' if f.id=='max' else f'(if nltb {b} {a} then {b} else {a})'
            if isinstance(f, ast.Name) and f.id=='float' and len(e.args)==1: return self.expr(e.args[0])
            if isinstance(f, ast.Attribute) and isinstance(f.value, ast.Name) and f.value.id=='math' and f.attr in MATH1:
                return f'({MATH1[f.attr]} {self.expr(e.args[0])})'
            raise Untranslatable(ast.dump(e))
        raise Untranslatable(ast.dump(e))
    def assigned(self, stmts):
        out=[]
        for s in stmts:
            if isinstance(s, ast.Assign):
                for t in s.targets:
                    if isinstance(t, ast.Name) and t.id not in out: out.append(t.id)
            elif isinstance(s, ast.If):
                for v in self.assigned(s.body)+self.assigned(s.orelse):
                    if v not in out: out.append(v)
        return out
    def block(self, stmts, k):
        """translate statements then continuation k (a Coq expression string)"""
        if not stmts: return k
        s, rest = stmts[0], stmts[1:]
        if isinstance(s, ast.Expr) and isinstance(s.value, ast.Constant) and isinstance(s.value.value,str):
            return self.block(rest,k)                      # docstring
        if isinstance(s, ast.Assert): return self.block(rest,k)
        if isinstance(s, ast.Return):
            return self.expr(s.value)
        if isinstance(s, ast.Assign) and len(s.targets)==1 and isinstance(s.targets[0], ast.Name):
            return f'let {s.targets[0].id} := {self.expr(s.value)} in\n  {self.block(rest,k)}'
        if isinstance(s, ast.If):
            if self.returns(s.body) and (not s.orelse or self.returns(s.orelse)) :
                els = self.block(s.orelse, None) if s.orelse else self.block(rest,k)
                return f'(if {self.expr(s.test)} then {self.block(s.body,None)} else {els})'
            vs=self.assigned([s])
            tup='('+', '.join(vs)+')' if len(vs)>1 else vs[0]
            pat="'"+tup if len(vs)>1 else tup
            return (f'let {pat} := (if {self.expr(s.test)} then {self.block(s.body,tup)} else {self.block(s.orelse,tup)}) in\n  '
                    f'{self.block(rest,k)}')
        raise Untranslatable(ast.dump(s)[:200])
    def returns(self, stmts):
        return bool(stmts) and isinstance(stmts[-1], ast.Return)
    def emit(self, name=None, extra_args=()):
        args=[a.arg for a in self.f.args.args if a.arg not in ('self',)]
        args=[a for a in args if a not in dict(extra_args)]
        allargs=[]
        for a in args: allargs.append(a)
        for a,subs in extra_args: allargs += subs
        body=self.block(self.f.body, None)
        return f'Definition {name or self.f.name} ({" ".join(allargs)} : F) : F :=\n  {body}.\n'

def load(path):
    tree=ast.parse(open(path).read())
    consts={}; fns={}
    for n in tree.body:
        if isinstance(n, ast.Assign) and len(n.targets)==1 and isinstance(n.targets[0], ast.Name):
            consts[n.targets[0].id]=n.value
        if isinstance(n, ast.FunctionDef): fns[n.name]=n
        if isinstance(n, ast.ClassDef):
            for m in n.body:
                if isinstance(m, ast.FunctionDef): fns[n.name+'.'+m.name]=m
    return consts, fns

if __name__=='__main__':
    consts,fns=load('/repo/propka/energy.py')
    out=['(* generated by py2coq_spike.py from /repo/propka/energy.py, group.py *)',
         'From Coq Require Import ZArith Bool.', 'Require Import NumClass.', 'Section Gen.', 'Context {F : Type} `{Num F}.']
    P=[('parameters',x) for x in ('Nmin','Nmax','desolvationSurfaceScalingFactor','coulomb_cutoff1','coulomb_cutoff2')]
    out.append(Fn(fns['calculate_weight'],consts,P).emit(extra_args=[('parameters',['parameters_Nmin','parameters_Nmax'])]))
    out.append(Fn(fns['calculate_scale_factor'],consts,P).emit(extra_args=[('parameters',['parameters_desolvationSurfaceScalingFactor'])]))
    out.append(Fn(fns['hydrogen_bond_energy'],consts,P).emit(extra_args=[('cutoffs',['cutoffs_0','cutoffs_1'])]))
    out.append(Fn(fns['coulomb_energy'],consts,P).emit(extra_args=[('parameters',['parameters_coulomb_cutoff1','parameters_coulomb_cutoff2'])]))
    c2,f2=load('/repo/propka/group.py')
    G=[('self',x) for x in ('charge','model_pka','pka_value')]
    fn=f2['Group.calculate_charge']
    # drop the `state` string dispatch: emit both specialisations by constant-folding the test
    out.append('End Gen.')
    open('Energy_gen.v','w').write('\n'.join(out)+'\n')
    print(open('Energy_gen.v').read())
