(* Spike: MolecularContainer.get_pi bisection brackets the sign change within the precision (C09). *)
From Coq Require Import Reals Lra.
Open Scope R_scope.

Section Pi.
Variable Q : R -> R.                    (* total charge curve of one state *)
Variable prec : R.

(* def pi(which, pH, min_, max_): charge = Q(pH); if max_-min_ > precision: (min_ = pH if charge > 0 else max_ = pH);
   return pi(which, (min_+max_)/2, min_, max_); return pH *)
Fixpoint pi (fuel : nat) (pH lo hi : R) : option R :=
  match fuel with
  | O => None
  | S f =>
    if Rlt_dec prec (hi - lo) then
      if Rlt_dec 0 (Q pH) then pi f ((pH + hi) / 2) pH hi else pi f ((lo + pH) / 2) lo pH
    else Some pH
  end.

Definition get_pi (fuel : nat) (g0 g1 : R) := pi fuel ((g0 + g1) / 2) g0 g1.

Lemma pi_brackets : forall fuel pH lo hi p,
  lo <= pH <= hi -> 0 < Q lo -> Q hi <= 0 ->
  pi fuel pH lo hi = Some p ->
  exists a b, a <= p <= b /\ b - a <= prec /\ 0 < Q a /\ Q b <= 0 /\ lo <= a /\ b <= hi.
Proof.
  induction fuel as [|f IH]; intros pH lo hi p Hin Hlo Hhi Hr; [discriminate|].
  simpl in Hr. destruct (Rlt_dec prec (hi - lo)) as [Hw|Hw].
  - destruct (Rlt_dec 0 (Q pH)) as [Hq|Hq].
    + assert (H1 : pH <= (pH + hi) / 2 <= hi) by lra.
      destruct (IH _ _ _ _ H1 Hq Hhi Hr) as (a & b & H). exists a, b. intuition lra.
    + assert (H1 : lo <= (lo + pH) / 2 <= pH) by lra. assert (H2 : Q pH <= 0) by lra.
      destruct (IH _ _ _ _ H1 Hlo H2 Hr) as (a & b & H). exists a, b. intuition lra.
  - inversion Hr; subst. exists lo, hi. intuition lra.
Qed.

Theorem get_pi_brackets fuel g0 g1 p : g0 <= g1 -> 0 < Q g0 -> Q g1 <= 0 ->
  get_pi fuel g0 g1 = Some p ->
  exists a b, a <= p <= b /\ b - a <= prec /\ 0 < Q a /\ Q b <= 0.
Proof.
  intros Hg H0 H1 Hr. assert (Hm : g0 <= (g0 + g1) / 2 <= g1) by lra.
  destruct (pi_brackets fuel _ g0 g1 p Hm H0 H1 Hr) as (a & b & H).
  exists a, b. intuition.
Qed.

(* with an antitone curve every sign change lies in [a,b], hence within prec of the answer *)
Corollary get_pi_near_root fuel g0 g1 p r :
  (forall x y, x <= y -> Q y <= Q x) ->
  g0 <= g1 -> 0 < Q g0 -> Q g1 <= 0 -> get_pi fuel g0 g1 = Some p ->
  (forall x, x < r -> 0 < Q x) -> (forall x, r < x -> Q x <= 0) -> Rabs (p - r) <= prec.
Proof.
  intros Hmono Hg H0 H1 Hr Hbelow Habove.
  destruct (get_pi_brackets fuel g0 g1 p Hg H0 H1 Hr) as (a & b & Hp & Hw & Ha & Hb).
  assert (a <= r). { destruct (Rle_dec a r); auto. exfalso. specialize (Habove a ltac:(lra)). lra. }
  assert (r <= b). { destruct (Rle_dec r b); auto. exfalso. specialize (Hbelow b ltac:(lra)). lra. }
  apply Rabs_le. lra.
Qed.
End Pi.
