(* Spike: coupled_groups.transfer_determinant / swap_interactions is an involution up to permutation (C15). *)
From Coq Require Import List Bool Permutation Arith.
Import ListNotations.

Section Swap.
Variable V : Type.                       (* determinant value *)
Definition label := nat.
Definition det := (label * V)%type.
Definition has (l : label) (d : det) := Nat.eqb (fst d) l.
Definition relabel (l : label) (d : det) : det := (l, snd d).

(* Python: from1to2/from2to1 are computed first, then moved (append to the other list, remove by identity) *)
Definition transfer (d1 d2 : list det) (l1 l2 : label) : list det * list det :=
  let f12 := filter (has l2) d1 in
  let f21 := filter (has l1) d2 in
  (filter (fun d => negb (has l2 d)) d1 ++ map (relabel l2) f21,
   filter (fun d => negb (has l1 d)) d2 ++ map (relabel l1) f12).

Lemma filter_split {A} (p : A -> bool) l : Permutation (filter p l ++ filter (fun x => negb (p x)) l) l.
Proof.
  induction l as [|a l IH]; simpl; [constructor|].
  destruct (p a); simpl.
  - constructor; exact IH.
  - apply Permutation_sym. apply Permutation_cons_app. apply Permutation_sym. exact IH.
Qed.

Lemma filter_has_relabel l l' ds : filter (has l) (map (relabel l) (filter (has l') ds)) = map (relabel l) (filter (has l') ds).
Proof. induction ds as [|d r IH]; simpl; auto. destruct (has l' d); simpl; auto. unfold has at 1; simpl. rewrite Nat.eqb_refl. f_equal; exact IH. Qed.
Lemma filter_nothas_relabel l l' ds : filter (fun d => negb (has l d)) (map (relabel l) (filter (has l') ds)) = [].
Proof. induction ds as [|d r IH]; simpl; auto. destruct (has l' d); simpl; auto. unfold has at 1; simpl. rewrite Nat.eqb_refl. simpl. exact IH. Qed.
Lemma filter_has_nothas l ds : filter (has l) (filter (fun d => negb (has l d)) ds) = [].
Proof. induction ds as [|d r IH]; simpl; auto. destruct (has l d) eqn:E; simpl; auto. rewrite E. exact IH. Qed.
Lemma filter_nothas_idem l ds : filter (fun d => negb (has l d)) (filter (fun d => negb (has l d)) ds) = filter (fun d => negb (has l d)) ds.
Proof. induction ds as [|d r IH]; simpl; auto. destruct (has l d) eqn:E; simpl; auto. rewrite E. simpl. f_equal; exact IH. Qed.
Lemma relabel_back l ds : (forall d, In d ds -> fst d = l) -> map (relabel l) ds = ds.
Proof. induction ds as [|d r IH]; simpl; intros H; auto. f_equal; [destruct d as [a b]; unfold relabel; simpl; f_equal; symmetry; apply (H (a,b)); auto | apply IH; auto]. Qed.
Lemma map_relabel_relabel l l' ds : map (relabel l) (map (relabel l') ds) = map (relabel l) ds.
Proof. induction ds; simpl; auto. f_equal; auto. Qed.
Lemma filter_has_fst l ds : forall d, In d (filter (has l) ds) -> fst d = l.
Proof. intros d H. apply filter_In in H as [_ H]. apply Nat.eqb_eq in H. exact H. Qed.

Theorem swap_involutive d1 d2 l1 l2 :
  let '(a, b) := transfer d1 d2 l1 l2 in
  let '(a', b') := transfer a b l1 l2 in
  Permutation a' d1 /\ Permutation b' d2.
Proof.
  unfold transfer. cbv zeta.
  rewrite !filter_app, !filter_has_relabel, !filter_nothas_relabel, !filter_has_nothas, !filter_nothas_idem, !app_nil_r.
  cbn [app]. rewrite !map_relabel_relabel.
  rewrite (relabel_back l2 (filter (has l2) d1)) by apply filter_has_fst.
  rewrite (relabel_back l1 (filter (has l1) d2)) by apply filter_has_fst.
  split.
  - eapply perm_trans; [apply Permutation_app_comm|]. apply filter_split.
  - eapply perm_trans; [apply Permutation_app_comm|]. apply filter_split.
Qed.
End Swap.
Print Assumptions swap_involutive.
